#!/venv/bin/python
"""Sensitivity self-test: apply each mutant (a textual substitution in a scratch copy of /repo/src under /tmp,
deleted afterwards) and run the quick check of its property with HAIWAY_SRC pointing at the copy.
A mutant is *killed* when the check exits 1 with a VIOLATION line.

usage: run_mutants.py [--only ID[,ID]] [--prop C12] [--scale 0.3] [--suite]
  --suite also runs the repository's own test suite against the mutant (must still pass for the mutant to count
  as 'realistic')."""
import argparse
import json
import os
import shutil
import subprocess
import sys
import tempfile

VERIF = os.path.dirname(os.path.dirname(os.path.abspath(__file__)))


def main():
    ap = argparse.ArgumentParser()
    ap.add_argument("--only")
    ap.add_argument("--prop")
    ap.add_argument("--scale", default="0.3")
    ap.add_argument("--suite", action="store_true")
    args = ap.parse_args()
    with open(os.path.join(VERIF, "selftest", "mutants.json")) as f:
        mutants = json.load(f)["mutants"]
    only = set(args.only.split(",")) if args.only else None
    results = []
    for m in mutants:
        if only and m["id"] not in only:
            continue
        if args.prop and args.prop not in m["properties"]:
            continue
        tmp = tempfile.mkdtemp(prefix="hwmut.")
        try:
            shutil.copytree("/repo/src", os.path.join(tmp, "src"))
            path = os.path.join(tmp, "src", m["file"])
            text = open(path).read()
            if text.count(m["old"]) < 1:
                results.append((m["id"], "STALE (pattern not found)", ""))
                continue
            text = text.replace(m["old"], m["new"]) if m.get("all") else text.replace(m["old"], m["new"], 1)
            open(path, "w").write(text)
            suite = ""
            if args.suite:
                shutil.copytree("/repo/tests", os.path.join(tmp, "tests"))
                p = subprocess.run(["/venv/bin/python", "-m", "pytest", "-q", "-p", "no:cacheprovider", "-x", "tests"],
                                   cwd=tmp, env=dict(os.environ, PYTHONPATH=os.path.join(tmp, "src")),
                                   capture_output=True, text=True, timeout=600)
                suite = "suite:" + (p.stdout.strip().splitlines() or ["?"])[-1]
            verdicts = []
            for pid in m["properties"]:
                if args.prop and pid != args.prop:
                    continue
                env = dict(os.environ, HAIWAY_SRC=os.path.join(tmp, "src"), VERIF_SCALE=args.scale,
                           VERIF_DET_SEEDS="1")
                p = subprocess.run([os.path.join(VERIF, "bin", "check"), pid, "--tier", "quick"], env=env,
                                   capture_output=True, text=True, timeout=1200)
                sigs = [ln.split("::")[0].replace("violation rule/signature:", "").strip()
                        for ln in p.stdout.splitlines() if "violation rule/signature:" in ln.split("::")[0]]
                verdicts.append(f"{pid}:{'KILLED' if p.returncode == 1 else 'SURVIVED' if p.returncode == 0 else 'HARNESS'}"
                                f"[{'; '.join(sigs)[:160]}]")
            expect = m.get("expect", "kill")
            tag = "" if expect == "kill" else " (expected to survive: behaviour-preserving)"
            if expect == "survive":
                verdicts = [v.replace("SURVIVED", "OK-SURVIVED").replace("KILLED", "FALSE-ALARM") for v in verdicts]
            results.append((m["id"], " ".join(verdicts) + tag, suite))
        finally:
            shutil.rmtree(tmp, ignore_errors=True)
        print(*results[-1], flush=True)
    # replays written against scratch copies are of no further use
    surv = [r for r in results if ":SURVIVED" in r[1] or "HARNESS" in r[1] or "STALE" in r[1] or "FALSE-ALARM" in r[1]]
    print(f"mutants={len(results)} not-killed={len(surv)}")
    return 1 if surv else 0


if __name__ == "__main__":
    sys.exit(main())
