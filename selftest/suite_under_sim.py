#!/venv/bin/python
"""Run /repo's own test suite, unedited, on the simulator for several seeds (conformance of SimLoop + schedule variation).
usage: suite_under_sim.py [N seeds]"""
import os, subprocess, sys
n = int(sys.argv[1]) if len(sys.argv) > 1 else 5
V = os.path.dirname(os.path.dirname(os.path.abspath(__file__)))
bad = 0
for seed in range(1, n + 1):
    env = dict(os.environ, PYTHONPATH=f"{V}/selftest/simplugin:{V}:/repo/src", VERIF_SEED=str(seed))
    p = subprocess.run(["/venv/bin/python", "-m", "pytest", "-q", "-p", "no:cacheprovider", "-p", "verif_sim_plugin",
                        "--timeout=300", "tests"], cwd="/repo", env=env, capture_output=True, text=True)
    last = (p.stdout.strip().splitlines() or ["?"])[-1]
    print(f"seed {seed}: {last}")
    if p.returncode != 0:
        bad += 1
        print(p.stdout[-1500:])
sys.exit(1 if bad else 0)
