"""pytest plugin: run the repository's own (unedited) async tests on SimLoop with virtual time.

Loaded with ``-p verif_sim_plugin`` (PYTHONPATH=/verif/selftest/simplugin:/verif).  pytest-asyncio asks the
``event_loop_policy`` fixture for a policy; ours hands out SimLoops driven by a Source seeded from VERIF_SEED, and the
time seams (monotonic / sleep / time) read the virtual clock, so a test that sleeps for seconds costs microseconds and
every schedule choice (timer ties, task-set order) comes from the seed.
"""
import asyncio
import os
import time

import pytest

from sim import seams
from sim.loop import Sim
from sim.source import Source, derive_seed

_counter = [0]
_base = int(os.environ.get("VERIF_SEED", "1"))
_real_time = time.time
_t0 = 0.0  # tests only use differences of time(); a large epoch offset would cost float precision


class SimPolicy(asyncio.DefaultEventLoopPolicy):
    def new_event_loop(self):
        _counter[0] += 1
        sim = Sim(Source(derive_seed(_base, "suite", _counter[0])), keep_log=False)
        seams.set_current(sim)
        return sim.loop


def _virtual_time():
    sim = seams.CURRENT
    return _t0 + (sim.loop._now if sim is not None else 0.0)


def pytest_configure(config):
    seams.install()
    # pytest-asyncio's own event_loop_policy fixture returns asyncio.get_event_loop_policy(): make that ours
    asyncio.set_event_loop_policy(SimPolicy())
    time.time = _virtual_time
    import sys
    for name, mod in list(sys.modules.items()):
        if name.startswith("tests") and getattr(mod, "time", None) is _real_time:
            mod.time = _virtual_time


def pytest_collection_modifyitems(session, config, items):
    # test modules bind `from time import time` / `sleep` at import: rebind them to the virtual clock
    import sys
    for name, mod in list(sys.modules.items()):
        if mod is None or not name.startswith("tests"):
            continue
        for attr, val in list(vars(mod).items()):
            if val is _real_time:
                setattr(mod, attr, _virtual_time)
            elif val is seams._REAL_SLEEP:
                setattr(mod, attr, seams.sim_sleep)
            elif val is seams._REAL_MONOTONIC:
                setattr(mod, attr, seams.sim_monotonic)
