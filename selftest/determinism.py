#!/venv/bin/python
"""Determinism self-test (DESIGN 6): for every claimed property, N seeds of every quick profile are executed in four
fresh interpreters - PYTHONHASHSEED 0 / 4242 / 99, forward and reverse order - and all per-seed digests must agree.
(The per-check self-test repeats a smaller version of this on every run.)  usage: determinism.py [N] [PID ...]"""
import json, os, subprocess, sys
from concurrent.futures import ThreadPoolExecutor
V = os.path.dirname(os.path.dirname(os.path.abspath(__file__)))
args = sys.argv[1:]
n = int(args[0]) if args and args[0].isdigit() else 150
pids = [a for a in args if not a.isdigit()] or sorted(json.load(open(f'{V}/MANIFEST.json'))['checks'], key=lambda c: c['property_id'])
pids = [p if isinstance(p, str) else p['property_id'] for p in pids]
CONFIGS = [("0", False), ("4242", True), ("99", False), ("7", True)]
def run(pid, hs, rev):
    cmd = [f'{V}/bin/check', pid, '--digests', str(n)] + (['--reverse'] if rev else [])
    p = subprocess.run(cmd, capture_output=True, text=True, env=dict(os.environ, PYTHONHASHSEED=hs, VERIF_SEED='777'), timeout=3600)
    return p.stdout.strip().splitlines()[-1] if p.stdout.strip() else 'ERR ' + p.stderr[-300:]
bad = 0
with ThreadPoolExecutor(max_workers=8) as ex:
    futs = {(pid, c): ex.submit(run, pid, *c) for pid in pids for c in CONFIGS}
    for pid in pids:
        outs = [futs[(pid, c)].result() for c in CONFIGS]
        same = all(o == outs[0] for o in outs) and not outs[0].startswith('ERR')
        nd = sum(len(r[2]) for r in json.loads(outs[0])) if same else 0
        print(f"{pid}: {'deterministic' if same else 'DIVERGED'} ({len(CONFIGS)} interpreters, {nd} execution digests each)")
        if not same:
            bad += 1
            try:
                rows = [json.loads(o) for o in outs]
                for a, b in zip(rows[0], rows[1]):
                    if a != b:
                        print('   first difference:', a[:2], a[2][:2], b[2][:2]); break
            except Exception as e:
                print('  ', outs[0][:200], '|', outs[1][:200])
sys.exit(1 if bad else 0)
