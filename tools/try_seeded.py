#!/venv/bin/python
"""Confirm a sub-agent's seeded change and run the checks against it.
usage: try_seeded.py <dir with patch.diff and demo.py> <seed id> <PROP[,PROP]> [--scale 0.5] [--keep]
 1. scratch worktree of /repo HEAD under /tmp: patch applies, suite passes with it, demo fails with it and passes without
 2. git -C /repo apply patch; run the quick check(s); git -C /repo checkout -- .   (always undone)
 3. with --keep: copy patch.diff, demo, meta.json to /verif/seeded/<seed id>/"""
import json, os, shutil, subprocess, sys, tempfile
args = sys.argv[1:]
src, sid, props = args[0], args[1], args[2].split(',')
scale = args[args.index('--scale') + 1] if '--scale' in args else '0.5'
keep = '--keep' in args
patch = os.path.join(src, 'patch.diff')
demo = [f for f in os.listdir(src) if f.startswith('demo') or f.startswith('test_')]
demo = os.path.join(src, demo[0])
wt = tempfile.mkdtemp(prefix='wtverify.')
os.rmdir(wt)
meta = {"seed_id": sid, "properties": props}
def sh(cmd, **kw):
    return subprocess.run(cmd, shell=True, capture_output=True, text=True, **kw)
try:
    assert sh(f"git -C /repo worktree add --detach {wt} HEAD -q").returncode == 0
    env = dict(os.environ, PYTHONPATH=f"{wt}/src")
    r = sh(f"timeout 120 /venv/bin/python {demo}" if not demo.endswith('.py') or 'test_' not in os.path.basename(demo) else f"timeout 120 /venv/bin/python -m pytest -q -p no:cacheprovider {demo}", env=env, cwd=wt)
    meta["demo_without_change_exit"] = r.returncode
    a = sh(f"git -C {wt} apply {patch}")
    meta["patch_applies"] = a.returncode == 0
    if a.returncode != 0:
        print("PATCH DOES NOT APPLY", a.stderr[:300])
    s = sh("timeout 600 /venv/bin/python -m pytest -q -p no:cacheprovider tests", env=env, cwd=wt)
    meta["suite_with_change"] = (s.stdout.strip().splitlines() or ['?'])[-1]
    r2 = sh(f"timeout 120 /venv/bin/python {demo}" if 'test_' not in os.path.basename(demo) else f"timeout 120 /venv/bin/python -m pytest -q -p no:cacheprovider {demo}", env=env, cwd=wt)
    meta["demo_with_change_exit"] = r2.returncode
except BaseException:
    sh(f"git -C /repo worktree remove --force {wt}")
    shutil.rmtree(wt, ignore_errors=True)
    raise
confirmed = meta["patch_applies"] and meta["demo_without_change_exit"] == 0 and meta["demo_with_change_exit"] != 0 and 'passed' in meta["suite_with_change"] and 'failed' not in meta["suite_with_change"]
meta["confirmed"] = confirmed
print(json.dumps(meta))
meta["checks"] = {}
if confirmed:
    # the checks read the changed sources from the scratch worktree (HAIWAY_SRC), equivalent to
    # `git -C /repo apply` + undo but safe while background runs are reading /repo
    try:
        for pid in props:
            p = sh(f"HAIWAY_SRC={wt}/src VERIF_SCALE={scale} VERIF_DET_SEEDS=1 timeout 1500 /verif/bin/check {pid} --tier quick")
            sigs = [l.split('::')[0].replace('violation rule/signature:', '').strip() for l in p.stdout.splitlines() if 'violation rule/signature:' in l.split('::')[0]]
            verdict = 'CAUGHT' if p.returncode == 1 else ('MISSED' if p.returncode == 0 else 'HARNESS')
            meta["checks"][pid] = {"verdict": verdict, "signatures": sigs[:6], "cmd": f"VERIF_SCALE={scale} /verif/bin/check {pid} --tier quick", "exit": p.returncode}
            print(pid, verdict, sigs[:4])
            if verdict == 'HARNESS':
                print(p.stdout[-1500:])
    finally:
        pass
sh(f"git -C /repo worktree remove --force {wt}")
shutil.rmtree(wt, ignore_errors=True)
if keep and confirmed:
    dst = f"/verif/seeded/{sid}"
    os.makedirs(dst, exist_ok=True)
    notes = os.path.join(src, 'notes.md')
    if os.path.realpath(src) != os.path.realpath(dst):
        shutil.copy(patch, dst)
        shutil.copy(demo, dst)
        if os.path.exists(notes):
            shutil.copy(notes, dst)
    meta["needs_to_manifest"] = "see notes.md (written by the sub-agent that seeded the change)"
    json.dump(meta, open(os.path.join(dst, 'meta.json'), 'w'), indent=1)
