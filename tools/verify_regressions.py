#!/venv/bin/python
"""For every fixed finding with a regression replay: the replay must reproduce the violation on the tree just
before the fix commit (HAIWAY_SRC = /repo at <commit>^ extracted under /tmp, removed afterwards) and must be
silent on the current tree."""
import json, os, shutil, subprocess, sys, tempfile
V = '/verif'
known = json.load(open(f'{V}/known_findings.json'))['findings']
cache = {}
bad = 0
try:
    for e in known:
        if e.get('status') != 'fixed' or not e.get('regression'):
            continue
        c = e['commit']
        if c not in cache:
            d = tempfile.mkdtemp(prefix='hwold.')
            subprocess.run(f"git -C /repo archive {c}^ src | tar -x -C {d}", shell=True, check=True)
            cache[c] = d
        f = os.path.join(V, e['regression'])
        old = subprocess.run([f'{V}/bin/check', e['property'], '--replay', f], capture_output=True, text=True,
                             env=dict(os.environ, HAIWAY_SRC=cache[c] + '/src'))
        new = subprocess.run([f'{V}/bin/check', e['property'], '--replay', f], capture_output=True, text=True)
        sig_old = [l for l in old.stdout.splitlines() if l.startswith('violation:')]
        got = json.loads(sig_old[0][len('violation:'):])['signature'] if sig_old else None
        ok = old.returncode == 1 and new.returncode == 0
        same = got == e['signature']
        if not ok:
            bad += 1
        print(f"{'ok ' if ok else 'BAD'} {e['property']} {c} before-fix exit={old.returncode} sig={'same' if same else got} "
              f"now exit={new.returncode} {e['regression']}")
finally:
    for d in cache.values():
        shutil.rmtree(d, ignore_errors=True)
sys.exit(1 if bad else 0)
