#!/venv/bin/python
"""Hand tool (never run by a check): list the violations reported in evidence/<pid>.json as OPEN known findings.
usage: adopt_open.py PID "explanation appended to every entry" """
import json, sys
pid, why = sys.argv[1], sys.argv[2]
ev = json.load(open(f'/verif/evidence/{pid}.json'))
d = json.load(open('/verif/known_findings.json'))
have = {(e['property'], e['signature']) for e in d['findings']}
n = 0
for r in ev['coverage']['violations_reported']:
    if (pid, r['signature']) in have:
        continue
    d['findings'].append({"property": pid, "signature": r['signature'], "status": "open",
                          "what": f"{r['msg'][:300]} -- {why}", "example_replay_choices": r['choices']})
    n += 1
json.dump(d, open('/verif/known_findings.json', 'w'), indent=1)
print("added", n)
