#!/venv/bin/python
"""usage: add_finding.py PROP SIGNATURE STATUS COMMIT REGRESSION WHAT  (helper to edit known_findings.json by hand-run only)"""
import json, sys
pid, sig, status, commit, reg, what = sys.argv[1:7]
d = json.load(open('/verif/known_findings.json'))
e = {"property": pid, "signature": sig, "status": status, "what": what}
if status == "fixed":
    e["commit"] = commit
    e["line"] = f"fixed: property={pid} {commit} {what}"
if reg != "-":
    e["regression"] = reg
d["findings"].append(e)
json.dump(d, open('/verif/known_findings.json', 'w'), indent=1)
