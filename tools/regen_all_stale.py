#!/venv/bin/python
"""Regenerate every regression replay that no longer reproduces on its pre-fix tree (after generator changes)."""
import json, subprocess, sys
out = subprocess.run(['/verif/tools/verify_regressions.py'], capture_output=True, text=True).stdout
known = {e.get('regression'): e for e in json.load(open('/verif/known_findings.json'))['findings'] if e.get('regression')}
bad = [l.split()[-1] for l in out.splitlines() if l.startswith('BAD')]
for reg in bad:
    e = known[reg]
    for scale in ('0.3', '1', '3'):
        p = subprocess.run(['/verif/tools/regen_regression.py', e['property'], e['commit'], e['signature'], '/verif/' + reg, scale],
                           capture_output=True, text=True)
        print(reg, scale, p.stdout.strip().splitlines()[-1][:160] if p.stdout.strip() else p.stderr[-200:])
        if p.returncode == 0:
            break
print(subprocess.run(['/verif/tools/verify_regressions.py'], capture_output=True, text=True).stdout.count('\nok') + 1, 'ok after regeneration')
