#!/venv/bin/python
"""Re-create the regression replay of a fixed finding after a generator change made the stored choice list stale:
run the check against /repo at <commit>^ (scratch copy under /tmp, removed) and keep the minimised replay that has
the wanted signature.  usage: regen_regression.py PID COMMIT 'SIGNATURE' OUTFILE [scale]"""
import json, os, shutil, subprocess, sys, tempfile
pid, commit, sig, out = sys.argv[1:5]
scale = sys.argv[5] if len(sys.argv) > 5 else "0.5"
d = tempfile.mkdtemp(prefix='hwold.')
try:
    subprocess.run(f"git -C /repo archive {commit}^ src | tar -x -C {d}", shell=True, check=True)
    p = subprocess.run(['/verif/bin/check', pid, '--tier', 'quick'], capture_output=True, text=True,
                       env=dict(os.environ, HAIWAY_SRC=d + '/src', VERIF_SCALE=scale, VERIF_DET_SEEDS='1'))
    ev = json.load(open(f'/verif/evidence/{pid}.json'))
    for r in ev['coverage']['violations_reported']:
        if r['signature'] == sig:
            doc = json.load(open(r['replay']))
            doc['tree'] = {'note': f'recorded against /repo at {commit}^ (before the fix)'}
            json.dump(doc, open(out, 'w'), indent=1, default=repr)
            print('regenerated', out, 'choices', len(doc['choices']))
            break
    else:
        print('signature not found among', [r['signature'] for r in ev['coverage']['violations_reported']])
        sys.exit(1)
finally:
    shutil.rmtree(d, ignore_errors=True)
