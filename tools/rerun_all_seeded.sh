#!/bin/sh
# re-run every kept seeded change (all waves) with the properties recorded in its meta.json
for d in /verif/seeded/*/; do
  id=$(basename $d)

  props=$(python3 -c "import json,sys; print(','.join(json.load(open('$d/meta.json'))['properties']))")
  was=$(python3 -c "import json,sys; m=json.load(open('$d/meta.json')); print(int(any(c['verdict']=='CAUGHT' for c in m['checks'].values())))")
  out=$(/verif/tools/try_seeded.py $d $id $props --keep --scale 0.3 2>&1 | grep "CAUGHT\|MISSED\|HARNESS\|confirmed\": false\|DOES NOT" | cut -c1-160 | tr '\n' ' ')
  echo "$id was_caught=$was :: $out"
done
