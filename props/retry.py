"""C14 - retry makes exactly the allowed attempts and reports the true last outcome.

The outcome sequence of the wrapped function is the fault sequence.  Sync variant: ``time.sleep`` is
a seam that records the request and advances the virtual clock.  Async variant: runs under SimLoop,
attempts may suspend (timer or external event) and an external cancel is swept over every loop
iteration of the fault-free twin ('async-sweep').  Oracle: a reference attempt/pause calculator.
"""
from __future__ import annotations

import asyncio

from props.common import InjectedBase, Obj
from sim.loop import GRID
from sim.prop import Prop, sweep_expand

EPS = 1e-9


class A(Exception):
    pass


class A1(A):
    pass


class A2(A):
    """A caught exception that cannot be printed: str() of it fails (a message template that assumed a payload)."""

    def __str__(self):
        raise TypeError("unprintable exception")


class A3(A, TimeoutError):
    """A caught exception that is also a TimeoutError (socket / asyncio.timeout / wait_for inside the function)."""


class B(Exception):
    pass


class C(Exception):
    pass


KINDS = ("ok", "caught", "sub", "other", "cancelled", "base", "group", "unprintable", "timeout")
CATCHING = (
    ("class A", lambda: A),
    ("tuple (A,)", lambda: (A,)),
    ("set {A}", lambda: {A}),
    ("tuple (C, A)", lambda: (C, A)),
    ("set {A, C}", lambda: {A, C}),
    ("default Exception", None),
    # the docstring allows naming CancelledError explicitly: it is propagated all the same
    ("tuple (A, CancelledError)", lambda: (A, asyncio.CancelledError)),
    ("tuple (BaseException,)", lambda: (BaseException,)),
)


class C14(Prop):
    id = "C14"
    level = "exploration"
    tiers = {
        "quick": [("sync", 240000), ("async", 180000), ("async-sweep", 18000)],
        "thorough": [("sync", 4800000), ("async", 3600000), ("async-sweep", 360000), ("sync-deep", 400000), ("async-deep", 400000), ("async-sweep-deep", 20000)],
    }
    rule_text = (
        "one case = (limit 1..4, catching as class/tuple/set/default, delay None/int/float/callable, outcome "
        "sequence of length <= limit+2 over {success, caught, subclass of caught, uncaught, CancelledError, other "
        "BaseException, ExceptionGroup, caught exception whose str() fails}, sync or async, attempt durations) + schedule; 'async-sweep' injects one external cancel at "
        "EVERY loop iteration of the fault-free twin; distinct = distinct event-log digest; non-trivial = at least "
        "one retry was taken or a cancel landed in an attempt or a pause"
    )
    components = {
        "real": ["haiway.helpers.retries.retry (unmodified)", "asyncio.sleep / Task (CPython)"],
        "stub": ["event loop + clock (SimLoop)", "time.sleep (records the request, advances the virtual clock)",
                 "wrapped function, delay function are harness doubles"],
    }

    def sim_options(self, profile):
        return {"max_boundaries": 3000}

    def expand(self, seed, profile, run, sample):
        from sim.source import Source
        if profile.removesuffix("-deep") == "async-sweep":
            return sweep_expand(self, seed, profile, run, sample)
        return run(Source(seed), sample)

    def execute(self, sim, profile):
        import haiway.helpers.retries as retries_module
        from haiway import retry

        s = sim.source
        deep = profile.endswith("-deep")
        profile = profile.removesuffix("-deep")
        is_async = profile != "sync"
        limit = 1 + s.draw(9 if deep else 4, "limit")
        # the limit may be given as a float (a configuration value) or as infinity ("retry until it works")
        limit_form = s.weighted((8, 1, 1), "limit-form")
        ck = s.draw(len(CATCHING), "catching")
        catching_name, catching_make = CATCHING[ck]
        dk = s.draw(7, "delay")  # none, float, int, callable, float, float zero, int zero
        ncalls = 1 + (s.weighted((3, 1), "ncalls") if is_async else 0)  # overlapping invocations of ONE wrapped function
        # re-entrancy: the wrapped function itself calls the wrapper again (a retried operation built on the same retried helper);
        # then the second invocation is made from inside the first attempt of the first one instead of by a task of its own
        nested = profile != "async-sweep" and s.chance(1, 6, "nested-call")
        if nested:
            ncalls = 2
        table = [(0, 1, 2, 3)[s.draw(4, "dly")] * 32 for _ in range(limit + 1)]  # callable delay table (grid steps, 0 allowed)
        calls = []
        for ci in range(ncalls):
            seq_len = s.draw(limit + 3, "seq-len")
            seq = [KINDS[s.weighted((4, 10, 4, 2, 2, 2, 1, 1, 1), "outcome")] for _ in range(seq_len)]
            durs = [(0, 0, 64, -1)[s.draw(4, "dur")] if is_async else 0 for _ in range(seq_len + 1)]
            calls.append({"outcomes": seq, "durations": durs})
        delay_name = ("none", "float", "int", "callable", "float", "float-zero", "int-zero")[dk]
        # the wrapped function has keyword parameters named like the decorator's own options
        extra_kwargs = {"limit": 77, "delay": 0.5, "catching": 1, "function": 2, "attempt": 3} if s.chance(1, 3, "odd-kwargs") else {}
        pre_cancelled = is_async and profile != "async-sweep" and s.chance(1, 6, "pre-cancelled")
        # the wrapped callable need not be a plain function: functools.partial (no __name__), or a callable instance
        callable_kind = s.weighted((4, 1, 1, 1), "callable-kind")
        sim.program = {"variant": profile, "limit": limit, "limit_given_as": ("int", "float", "inf")[limit_form], "catching": catching_name, "delay": delay_name,
                       "calls": calls, "delay_table": table, "extra_kwargs": sorted(extra_kwargs),
                       "caller_swallowed_a_cancel_before": int(pre_cancelled), "second_call_made_from_inside_the_first": int(nested),
                       "wrapped_callable": ("function", "functools.partial", "callable instance", "sync facade whose __wrapped__ is async")[
                           callable_kind if not (is_async and callable_kind >= 2) else 1],
                       "cancel_at_iteration": sim.inject_choice if profile == "async-sweep" else 0}

        if catching_make is None:
            caught_types = (Exception,)
        else:
            c = catching_make()
            caught_types = tuple(c) if isinstance(c, (tuple, set)) else (c,)

        per = []
        for ci, spec in enumerate(calls):
            seq = spec["outcomes"]
            excs = [{"ok": None, "caught": A((ci, k)), "sub": A1((ci, k)), "other": B((ci, k)),
                     "cancelled": asyncio.CancelledError(), "base": InjectedBase((ci, k)), "unprintable": A2((ci, k)), "timeout": A3((ci, k)),
                     # a group made only of caught instances is itself caught only if ExceptionGroup is in the caught set
                     "group": ExceptionGroup("several", [A((ci, k)), A1((ci, k))])}[kind] for k, kind in enumerate(seq)]
            per.append({"seq": seq, "durs": spec["durations"], "excs": excs,
                        "values": [Obj(("v", ci, k)) for k in range(len(seq) + 1)], "attempts": [], "delay_calls": [],
                        "out": {"kind": None, "obj": None, "at": None}})
        sleeps = []  # sync: time.sleep requests; async: asyncio.sleep requests made by the retry wrapper
        state = {"cancel_seq": None, "cancel_ret": None, "cancel_at": None}

        def delay_fn(attempt, exc):
            probe = exc.exceptions[0] if isinstance(exc, ExceptionGroup) else exc
            ci = probe.args[0][0] if probe.args and isinstance(probe.args[0], tuple) else 0
            per[ci]["delay_calls"].append((attempt, exc))
            return table[min(attempt, limit) - 1] * GRID if attempt >= 1 else 0.0

        delay_arg = {0: None, 1: 64 * GRID, 2: 1, 3: delay_fn, 4: 64 * GRID, 5: 0.0, 6: 0}[dk]
        fixed_pause = {1: 64 * GRID, 2: 1.0, 4: 64 * GRID, 5: 0.0, 6: 0.0}.get(dk)

        def on_sleep(seconds):
            sleeps.append(float(seconds))
            sim.event("sleep_sync", float(seconds))
            sim.loop._now += float(seconds)

        sim.on_sleep_sync = on_sleep
        real_async_sleep = retries_module.sleep

        async def recording_sleep(delay, result=None):
            # seam: asyncio.sleep as imported by the retry module (records the request, then really sleeps virtually)
            sleeps.append(float(delay))
            sim.event("sleep_async", float(delay))
            return await real_async_sleep(delay, result)

        def body_common(ci, k, args, kwargs):
            if args != ("a", ci) or kwargs != {"kw": "k", **extra_kwargs}:
                sim.fail("arguments", f"attempt {k} of call {ci} received args={args!r} kwargs={kwargs!r}")
            if ci == 0 and state["cancel_ret"] and state["cancel_seq"] is not None:
                sim.fail("attempt-after-cancel", f"attempt {k} started after the caller had been cancelled")
            sim.event("attempt", ci, k)

        def finish(ci, k):
            p_ = per[ci]
            if k <= len(p_["seq"]) and p_["seq"][k - 1] != "ok":
                raise p_["excs"][k - 1]
            return p_["values"][min(k, len(p_["seq"]))]

        if is_async:
            async def fn(*args, **kwargs):
                ci = args[1] if len(args) > 1 and isinstance(args[1], int) and args[1] < len(per) else 0
                p_ = per[ci]
                k = len(p_["attempts"]) + 1
                body_common(ci, k, args, kwargs)
                rec = [k, sim.now, None]
                p_["attempts"].append(rec)
                try:
                    d = p_["durs"][min(k - 1, len(p_["durs"]) - 1)]
                    if d > 0:
                        await real_async_sleep(d * GRID)
                    elif d < 0:
                        await sim.pause(f"attempt{ci}.{k}")
                    if nested and ci == 0 and k == 1:
                        await nested_call()
                    return finish(ci, k)
                finally:
                    rec[2] = sim.now
        else:
            def fn(*args, **kwargs):
                ci = args[1] if len(args) > 1 and isinstance(args[1], int) and args[1] < len(per) else 0
                p_ = per[ci]
                k = len(p_["attempts"]) + 1
                body_common(ci, k, args, kwargs)
                rec = [k, sim.now, sim.now]
                p_["attempts"].append(rec)
                try:
                    if nested and ci == 0 and k == 1:
                        out = per[1]["out"]
                        try:
                            r = wrapped("a", 1, kw="k", **extra_kwargs)
                        except BaseException as exc:  # noqa: BLE001
                            out["kind"], out["obj"] = ("cancelled" if isinstance(exc, asyncio.CancelledError) else "raised"), exc
                        else:
                            out["kind"], out["obj"] = "value", r
                        out["at"] = sim.now
                        sim.event("caller-outcome", 1, out["kind"])
                    return finish(ci, k)
                finally:
                    rec[2] = sim.now

        kw = {"limit": (limit, float(limit), float("inf"))[limit_form]}
        # (with an infinite limit the model's bound is "never": every outcome sequence ends in a success or an uncaught error)
        limit_model = 10 ** 9 if limit_form == 2 else limit
        if delay_arg is not None:
            kw["delay"] = delay_arg
        if catching_make is not None:
            kw["catching"] = catching_make()
        import functools
        if callable_kind == 3 and not is_async:
            # a synchronous facade (functools.wraps) over an async function: what counts is what the callable IS, not what it wraps
            async def _async_original(*a, **k):
                raise AssertionError("the wrapped original must never be called")

            @functools.wraps(_async_original)
            def target(*a, **k):
                return fn(*a, **k)
        elif callable_kind == 1 or (is_async and callable_kind >= 2):
            def _shift(_marker, *a, **k):
                return fn(*a, **k)
            if is_async:
                async def _ashift(_marker, *a, **k):
                    return await fn(*a, **k)
                target = functools.partial(_ashift, "bound")
            else:
                target = functools.partial(_shift, "bound")
        elif callable_kind == 2:
            class CallableObject:
                def __call__(self, *a, **k):
                    return fn(*a, **k)
            target = CallableObject()
        else:
            target = fn
        wrapped = retry(**kw)(target)

        async def caller(ci):
            out = per[ci]["out"]
            if pre_cancelled:
                # the calling task handled a cancellation earlier (no uncancel): retrying must work as usual
                asyncio.current_task().cancel()
                try:
                    await asyncio.sleep(0)
                except asyncio.CancelledError:
                    sim.stats["caller_swallowed_cancel_before_call"] += 1
            try:
                if is_async:
                    r = await wrapped("a", ci, kw="k", **extra_kwargs)
                else:
                    r = wrapped("a", ci, kw="k", **extra_kwargs)
            except asyncio.CancelledError as exc:
                out["kind"], out["obj"] = "cancelled", exc
            except BaseException as exc:  # noqa: BLE001
                from sim.loop import SimStop
                if isinstance(exc, SimStop):
                    raise
                out["kind"], out["obj"] = "raised", exc
            else:
                out["kind"], out["obj"] = "value", r
            out["at"] = sim.now
            sim.event("caller-outcome", ci, out["kind"])

        async def nested_call():
            out = per[1]["out"]
            try:
                r = await wrapped("a", 1, kw="k", **extra_kwargs)
            except asyncio.CancelledError as exc:
                out["kind"], out["obj"] = "cancelled", exc
                if per[1]["seq"] and "cancelled" not in per[1]["seq"]:
                    raise  # (the enclosing task is being cancelled: not an outcome of the nested call)
            except BaseException as exc:  # noqa: BLE001
                out["kind"], out["obj"] = "raised", exc
            else:
                out["kind"], out["obj"] = "value", r
            out["at"] = sim.now
            sim.event("caller-outcome", 1, out["kind"])

        async def main():
            tasks = [sim.loop.create_task(caller(ci)) for ci in range(1 if nested else ncalls)]
            t = tasks[0]
            if profile == "async-sweep" and sim.inject_choice:
                def inj():
                    state["cancel_ret"] = t.cancel()
                    state["cancel_seq"] = sim.seq
                    state["cancel_at"] = sim.now
                    att = per[0]["attempts"]
                    state["in_attempt"] = bool(att) and att[-1][2] is None
                    sim.event("cancel-caller", state["cancel_ret"])
                    if state["cancel_ret"]:
                        sim.stats["fault:cancel_in_attempt" if state["in_attempt"] else "fault:cancel_in_pause_or_between"] += 1
                        sim.nontrivial = True
                sim.inject(sim.inject_choice, "cancel-caller", inj)
            await asyncio.wait(tasks)

        retries_module.sleep = recording_sleep
        try:
            outcome = sim.run(main)
        finally:
            retries_module.sleep = real_async_sleep
        if sim.violation is not None or sim.harness_errors:
            return
        if outcome != "ok":
            if outcome == "deadlock":
                sim.fail_post("hang", "retry call never terminated")
            return
        if sim.main.exception() is not None:
            sim.harness_error(f"main failed: {sim.main.exception()!r}")
            return
        if ncalls > 1:
            sim.stats["overlapping_invocations"] += 1
            sim.nontrivial = True

        # ---- reference, per invocation -------------------------------------------------------------
        all_pauses = []
        for ci in range(ncalls):
            p_ = per[ci]
            out, seq, excs, values, attempts = p_["out"], p_["seq"], p_["excs"], p_["values"], p_["attempts"]
            if ci == 0 and state["cancel_ret"]:
                if out["kind"] != "cancelled":
                    sim.fail_post("cancel-swallowed", f"caller was cancelled at {state['cancel_at']} but ended with {out['kind']} {out['obj']!r}")
                    return
                all_pauses = None
                continue
            exp_pauses = []
            exp_delay_calls = []
            k = 0
            while True:
                k += 1
                exp_calls = k
                kind = seq[k - 1] if k <= len(seq) else "ok"
                if kind == "ok":
                    exp = ("value", values[min(k, len(seq))])
                    break
                exc = excs[k - 1]
                if kind in ("cancelled", "base"):
                    exp = ("cancelled" if kind == "cancelled" else "raised", exc)
                    break
                if isinstance(exc, caught_types) and k - 1 < limit_model:
                    if fixed_pause is not None:
                        exp_pauses.append(fixed_pause)
                    elif dk == 3:
                        exp_pauses.append(table[min(k, limit) - 1] * GRID)
                        exp_delay_calls.append((k, exc))
                    else:
                        exp_pauses.append(None)  # no delay configured: no pause at all
                    continue
                exp = ("raised", exc)
                break
            if exp_pauses:
                sim.nontrivial = True
                sim.stats["retries_taken"] += len(exp_pauses)
            if len(attempts) != exp_calls:
                sim.fail_post("attempts", f"call {ci}: function called {len(attempts)} times, expected {exp_calls} "
                              f"(limit={limit}, outcomes={seq}, catching={catching_name}, overlapping={ncalls > 1}); caller got "
                              f"{out['kind']} {out['obj']!r}",
                              delta="more" if len(attempts) > exp_calls else "fewer",
                              delay=delay_name if out["kind"] == "raised" and isinstance(out["obj"], TypeError) else "-",
                              **({"error": type(out["obj"]).__name__, "callable": sim.program["wrapped_callable"]}
                                 if out["kind"] == "raised" and isinstance(out["obj"], (AttributeError, NameError)) else {}))
                return
            got_kind, got_obj = out["kind"], out["obj"]
            if not (got_kind == exp[0] and got_obj is exp[1]):
                sim.fail_post("outcome", f"call {ci}: caller got {got_kind} {got_obj!r}, expected {exp[0]} {exp[1]!r} (outcomes={seq}, limit={limit})",
                              got=f"{got_kind}:{type(got_obj).__name__}", want=f"{exp[0]}:{type(exp[1]).__name__}")
                return
            if exp[0] in ("raised", "cancelled") and (got_obj.__context__ is not None or got_obj.__cause__ is not None):
                sim.fail_post("exception-chain", f"call {ci}: the reported exception {got_obj!r} carries __context__={got_obj.__context__!r} / "
                              f"__cause__={got_obj.__cause__!r}; the function raised it with neither")
                return
            if dk == 3 and [(a, id(e)) for a, e in p_["delay_calls"]] != [(a, id(e)) for a, e in exp_delay_calls]:
                sim.fail_post("delay-args", f"call {ci}: delay function called with {[(a, repr(e)) for a, e in p_['delay_calls']]}, expected "
                              f"{[(a, repr(e)) for a, e in exp_delay_calls]}")
                return
            gaps = [attempts[i + 1][1] - attempts[i][2] for i in range(len(attempts) - 1)]
            want_gaps = [p or 0.0 for p in exp_pauses]
            if len(gaps) != len(want_gaps) or any(abs(g - w) > EPS for g, w in zip(gaps, want_gaps)):
                sim.fail_post("pauses", f"call {ci}: gaps between attempts {gaps}, expected {want_gaps} (delay={delay_name})", how="gap")
                return
            if all_pauses is not None:
                all_pauses.extend(p for p in exp_pauses if p is not None)
        # the sleep requests themselves: exactly one per retry when a delay is configured (even a zero one), none otherwise
        if all_pauses is not None and sorted(sleeps) != sorted(float(p) for p in all_pauses):
            sim.fail_post("pauses", f"sleep requests {sleeps}, expected {all_pauses} (delay={delay_name}, "
                          f"{'async' if is_async else 'sync'})", how="requests")
            return
        if sim.loop_errors:
            sim.fail_post("loop-error", f"loop exception handler called: {sim.loop_errors[:2]}")


from sim.prop import with_eager  # noqa: E402

C14.tiers = with_eager(C14.tiers, [('async', 60000)])
PROPS = {"C14": C14()}
