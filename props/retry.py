"""C14 - retry makes exactly the allowed attempts and reports the true last outcome.

The outcome sequence of the wrapped function is the fault sequence.  Sync variant: ``time.sleep`` is
a seam that records the request and advances the virtual clock.  Async variant: runs under SimLoop,
attempts may suspend (timer or external event) and an external cancel is swept over every loop
iteration of the fault-free twin ('async-sweep').  Oracle: a reference attempt/pause calculator.
"""
from __future__ import annotations

import asyncio

from props.common import InjectedBase, Obj
from sim.loop import GRID
from sim.prop import Prop, sweep_expand

EPS = 1e-9


class A(Exception):
    pass


class A1(A):
    pass


class B(Exception):
    pass


class C(Exception):
    pass


KINDS = ("ok", "caught", "sub", "other", "cancelled", "base")
CATCHING = (
    ("class A", lambda: A),
    ("tuple (A,)", lambda: (A,)),
    ("set {A}", lambda: {A}),
    ("tuple (C, A)", lambda: (C, A)),
    ("set {A, C}", lambda: {A, C}),
    ("default Exception", None),
)


class C14(Prop):
    id = "C14"
    level = "exploration"
    tiers = {
        "quick": [("sync", 240000), ("async", 180000), ("async-sweep", 18000)],
        "thorough": [("sync", 4800000), ("async", 3600000), ("async-sweep", 360000)],
    }
    rule_text = (
        "one case = (limit 1..4, catching as class/tuple/set/default, delay None/int/float/callable, outcome "
        "sequence of length <= limit+2 over {success, caught, subclass of caught, uncaught, CancelledError, other "
        "BaseException}, sync or async, attempt durations) + schedule; 'async-sweep' injects one external cancel at "
        "EVERY loop iteration of the fault-free twin; distinct = distinct event-log digest; non-trivial = at least "
        "one retry was taken or a cancel landed in an attempt or a pause"
    )
    components = {
        "real": ["haiway.helpers.retries.retry (unmodified)", "asyncio.sleep / Task (CPython)"],
        "stub": ["event loop + clock (SimLoop)", "time.sleep (records the request, advances the virtual clock)",
                 "wrapped function, delay function are harness doubles"],
    }

    def sim_options(self, profile):
        return {"max_boundaries": 3000}

    def expand(self, seed, profile, run, sample):
        from sim.source import Source
        if profile == "async-sweep":
            return sweep_expand(self, seed, profile, run, sample)
        return run(Source(seed), sample)

    def execute(self, sim, profile):
        from haiway import retry

        s = sim.source
        is_async = profile != "sync"
        limit = 1 + s.draw(4, "limit")
        ck = s.draw(len(CATCHING), "catching")
        catching_name, catching_make = CATCHING[ck]
        dk = s.draw(5, "delay")  # none, float, int, callable, float-zero-ish
        seq_len = s.draw(limit + 3, "seq-len")
        seq = [KINDS[s.weighted((2, 5, 2, 1, 1, 1), "outcome")] for _ in range(seq_len)]
        durs = [(0, 0, 64, -1)[s.draw(4, "dur")] if is_async else 0 for _ in range(seq_len + 1)]
        table = [(1 + s.draw(3, "dly")) * 32 for _ in range(limit + 1)]  # callable delay table (grid steps)
        sim.program = {"variant": profile, "limit": limit, "catching": catching_name,
                       "delay": ("none", "float", "int", "callable", "float")[dk], "outcomes": seq,
                       "durations": durs, "delay_table": table,
                       "cancel_at_iteration": sim.inject_choice if profile == "async-sweep" else 0}

        if catching_make is None:
            caught_types = (Exception,)
        else:
            c = catching_make()
            caught_types = tuple(c) if isinstance(c, (tuple, set)) else (c,)

        excs = []
        for k, kind in enumerate(seq):
            excs.append({"ok": None, "caught": A(k), "sub": A1(k), "other": B(k),
                         "cancelled": asyncio.CancelledError(), "base": InjectedBase(k)}[kind])
        values = [Obj(("v", k)) for k in range(seq_len + 1)]
        attempts = []  # (k, start time, end time)
        delay_calls = []
        sleeps = []
        state = {"cancel_seq": None, "cancel_ret": None, "cancel_at": None}

        def delay_fn(attempt, exc):
            delay_calls.append((attempt, exc))
            return table[min(attempt, limit) - 1] * GRID if attempt >= 1 else 0.0

        if dk == 0:
            delay_arg = None
        elif dk in (1, 4):
            delay_arg = 64 * GRID
        elif dk == 2:
            delay_arg = 1
        else:
            delay_arg = delay_fn

        def on_sleep(seconds):
            sleeps.append(seconds)
            sim.event("sleep_sync", seconds)
            sim.loop._now += float(seconds)

        sim.on_sleep_sync = on_sleep

        def body_common(k, args, kwargs):
            if args != ("a", 1) or kwargs != {"kw": "k"}:
                sim.fail("arguments", f"attempt {k} received args={args!r} kwargs={kwargs!r}")
            if state["cancel_ret"] and state["cancel_seq"] is not None:
                sim.fail("attempt-after-cancel", f"attempt {k} started after the caller had been cancelled")
            sim.event("attempt", k)

        def finish(k):
            if k <= len(seq) and seq[k - 1] != "ok":
                raise excs[k - 1]
            return values[min(k, seq_len)]

        if is_async:
            async def fn(*args, **kwargs):
                k = len(attempts) + 1
                body_common(k, args, kwargs)
                rec = [k, sim.now, None]
                attempts.append(rec)
                try:
                    d = durs[min(k - 1, len(durs) - 1)]
                    if d > 0:
                        await asyncio.sleep(d * GRID)
                    elif d < 0:
                        await sim.pause(f"attempt{k}")
                    return finish(k)
                finally:
                    rec[2] = sim.now
        else:
            def fn(*args, **kwargs):
                k = len(attempts) + 1
                body_common(k, args, kwargs)
                attempts.append([k, sim.now, sim.now])
                return finish(k)

        kw = {"limit": limit}
        if delay_arg is not None:
            kw["delay"] = delay_arg
        if catching_make is not None:
            kw["catching"] = catching_make()
        wrapped = retry(**kw)(fn)

        out = {"kind": None, "obj": None, "at": None}

        async def caller():
            try:
                if is_async:
                    r = await wrapped("a", 1, kw="k")
                else:
                    r = wrapped("a", 1, kw="k")
            except asyncio.CancelledError as exc:
                out["kind"], out["obj"] = "cancelled", exc
            except BaseException as exc:  # noqa: BLE001
                from sim.loop import SimStop
                if isinstance(exc, SimStop):
                    raise
                out["kind"], out["obj"] = "raised", exc
            else:
                out["kind"], out["obj"] = "value", r
            out["at"] = sim.now
            sim.event("caller-outcome", out["kind"])

        async def main():
            t = sim.loop.create_task(caller())
            if profile == "async-sweep" and sim.inject_choice:
                def inj():
                    state["cancel_ret"] = t.cancel()
                    state["cancel_seq"] = sim.seq
                    state["cancel_at"] = sim.now
                    state["attempts_at_cancel"] = len(attempts)
                    state["in_attempt"] = bool(attempts) and attempts[-1][2] is None
                    sim.event("cancel-caller", state["cancel_ret"])
                    if state["cancel_ret"]:
                        sim.stats["fault:cancel_in_attempt" if state["in_attempt"] else "fault:cancel_in_pause_or_between"] += 1
                        sim.nontrivial = True
                sim.inject(sim.inject_choice, "cancel-caller", inj)
            await asyncio.wait([t])

        outcome = sim.run(main)
        if sim.violation is not None or sim.harness_errors:
            return
        if outcome != "ok":
            if outcome == "deadlock":
                sim.fail_post("hang", "retry call never terminated")
            return
        if sim.main.exception() is not None:
            sim.harness_error(f"main failed: {sim.main.exception()!r}")
            return

        # ---- reference ---------------------------------------------------------------------------
        if state["cancel_ret"]:
            if out["kind"] != "cancelled":
                sim.fail_post("cancel-swallowed", f"caller was cancelled at {state['cancel_at']} but ended with {out['kind']} {out['obj']!r}")
            return
        exp_calls = 0
        exp_pauses = []
        exp_delay_calls = []
        k = 0
        while True:
            k += 1
            exp_calls = k
            kind = seq[k - 1] if k <= len(seq) else "ok"
            if kind == "ok":
                exp = ("value", values[min(k, seq_len)])
                break
            exc = excs[k - 1]
            if kind in ("cancelled", "base"):
                exp = ("cancelled" if kind == "cancelled" else "raised", exc)
                break
            if isinstance(exc, caught_types) and k - 1 < limit:
                if dk in (1, 4):
                    exp_pauses.append(64 * GRID)
                elif dk == 2:
                    exp_pauses.append(1.0)
                elif dk == 3:
                    exp_pauses.append(table[min(k, limit) - 1] * GRID)
                    exp_delay_calls.append((k, exc))
                else:
                    exp_pauses.append(0.0)
                continue
            exp = ("raised", exc)
            break
        if exp_pauses:
            sim.nontrivial = True
            sim.stats["retries_taken"] += len(exp_pauses)
        if len(attempts) != exp_calls:
            sim.fail_post("attempts", f"function called {len(attempts)} times, expected {exp_calls} "
                          f"(limit={limit}, outcomes={seq}, catching={catching_name}); caller got {out['kind']} {out['obj']!r}",
                          delta="more" if len(attempts) > exp_calls else "fewer",
                          delay=sim.program["delay"] if out["kind"] == "raised" and isinstance(out["obj"], TypeError) else "-")
            return
        got_kind, got_obj = out["kind"], out["obj"]
        if exp[0] == "cancelled":
            ok = got_kind == "cancelled" and got_obj is exp[1]
        else:
            ok = got_kind == exp[0] and got_obj is exp[1]
        if not ok:
            sim.fail_post("outcome", f"caller got {got_kind} {got_obj!r}, expected {exp[0]} {exp[1]!r} (outcomes={seq}, limit={limit})",
                          got=f"{got_kind}:{type(got_obj).__name__}", want=f"{exp[0]}:{type(exp[1]).__name__}")
            return
        # pauses
        if dk == 3 and [(a, id(e)) for a, e in delay_calls] != [(a, id(e)) for a, e in exp_delay_calls]:
            sim.fail_post("delay-args", f"delay function called with {[(a, repr(e)) for a, e in delay_calls]}, expected "
                          f"{[(a, repr(e)) for a, e in exp_delay_calls]}")
            return
        if not is_async:
            want = [p for p in exp_pauses] if dk != 0 else []
            if [float(x) for x in sleeps] != [float(x) for x in want]:
                sim.fail_post("pauses", f"sleeps requested {sleeps}, expected {want} (delay={sim.program['delay']})")
                return
        gaps = [attempts[i + 1][1] - attempts[i][2] for i in range(len(attempts) - 1)]
        if any(abs(g - p) > EPS for g, p in zip(gaps, exp_pauses)) or len(gaps) != len(exp_pauses):
            sim.fail_post("pauses", f"gaps between attempts {gaps}, expected {exp_pauses} (delay={sim.program['delay']})")
            return
        if sim.loop_errors:
            sim.fail_post("loop-error", f"loop exception handler called: {sim.loop_errors[:2]}")


PROPS = {"C14": C14()}
