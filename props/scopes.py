"""Scope-program engine: C01 C02 C03 C06 C07 C08 C09 C10 C19 (DESIGN section 3).

A generated *program* is a tree of operations executed by *actors* (asyncio tasks) under SimLoop.
Each actor carries a *shadow stack* of frames (the reference environment); the harness pushes a frame
when the body of a block starts and pops it in its own ``finally``, independently of whether the
library's ``__exit__`` ran correctly.  Every expectation is a function of the shadow stack and of the
event log.
"""
import asyncio
import logging
from collections.abc import Sequence

from props.common import Injected, InjectedBase, InjectedGeneratorExit, describe_exc
from sim.loop import GRID, SimStop
from sim.prop import Prop, sweep_expand, with_eager

EPS = 1e-9
NAMES = ("s", "outer", "a b", "", "100%", "%s", "x%dy", "scope")
NTYPES = 12  # size of the state family
_FAMILY = None


def family():
    """State family, defined once per process so that haiway's specialisation cache is constant."""
    global _FAMILY
    if _FAMILY is None:
        from haiway import Missing, State

        class T0(State):
            v: int = 0

        class T1(State):
            v: int

        class T2(T0):
            pass

        class G[X](State):
            v: X

        class TF(State):
            """A state that is falsy (like a disabled flag or an empty collection-like state)."""
            v: int = 0

            def __bool__(self):
                return False

        class TM(State):
            """Constructible without arguments because its attribute accepts MISSING."""
            opt: int | Missing
            v: int = 0

        from typing import Literal

        class TL(State):
            """Required attribute of a Literal type: constructing it without arguments fails inside the validators."""
            kind: Literal["a", "b"]
            v: int = 0

        class TU(State):
            """Required attribute of a union type."""
            u: int | str
            v: int = 0

        class TI(State):
            """A state that is itself iterable (container-like behaviour through a mixin)."""
            v: int = 0

            def __iter__(self):
                return iter(())

        def make_twin():
            class Twin(State):
                """Made by a factory: both products have the same __module__ and __qualname__ but are different types."""
                v: int = 0
            return Twin

        TwinA, TwinB = make_twin(), make_twin()

        class M0(State):
            v: int = 1  # (a default that is NOT neutral for the sum/concat merges: nothing may be folded in that was not recorded)

        class M1(State):
            items: Sequence[int] = ()

        class M0S(M0):
            """A metric type that inherits from another metric type: it is a metric of its own."""

        _FAMILY = {
            "types": (T0, T1, T2, G[int], G[str], TF, TM, TL, TU, TI, TwinA, TwinB),
            "names": ("T0", "T1", "T2", "G[int]", "G[str]", "TF(falsy)", "TM(opt: int|Missing)", "TL(kind: Literal)", "TU(u: int|str)",
                      "TI(iterable)", "Twin(first)", "Twin(second)"),
            "defaultable": (True, False, True, False, False, True, True, False, False, True, True, True),
            "generic": G,
            "metrics": (M0, M1),
            "metric_sub": M0S,
        }
    return _FAMILY


def resolve_states(eng, actor, pairs, frame):
    """Fill frame.states from (type index, value) pairs; value 'same' = the instance the innermost enclosing block supplies."""
    for ti, v in pairs:
        if v == "same":
            inst = None
            for g in reversed(actor.stack):
                if g.states.get(ti):
                    inst = g.states[ti][-1]
                    break
            if inst is None:
                inst = make_state(ti, 700000 + eng.next_uid())
            else:
                eng.sim.stats["same_state_instance_supplied_again"] += 1
            frame.states.setdefault(ti, []).append(inst)
        else:
            frame.states.setdefault(ti, []).append(make_state(ti, v))


def make_state(ti: int, val: int):
    T = family()["types"][ti]
    if ti == 7:
        return T(kind="ab"[val % 2], v=val)
    if ti == 8:
        return T(u=val if val % 2 else str(val), v=val)
    return T(v=str(val)) if ti == 4 else T(v=val)


class FrozenInjected(Injected):
    """An injected exception whose instances forbid attribute assignment (like a frozen dataclass exception)."""

    def __init__(self, tag):
        Exception.__init__(self, tag)

    @property
    def tag(self):
        return self.args[0]

    def __setattr__(self, name, value):
        raise AttributeError(f"cannot assign to field {name!r}")


class FalsyInjected(Injected):
    """An injected exception whose instances are falsy (e.g. an error type that is also a sized container)."""

    def __bool__(self):
        return False


# ------------------------------------------------------------------------------------------------
# log capture
# ------------------------------------------------------------------------------------------------
class Capture(logging.Handler):
    def __init__(self):
        super().__init__(level=logging.DEBUG)
        self.records = []

    def emit(self, record):
        try:
            text = record.getMessage()
            ok = True
        except Exception as exc:  # noqa: BLE001 - the message cannot be rendered: the line is lost
            text = f"<unrenderable {type(exc).__name__}: {record.msg!r} % {record.args!r}>"
            ok = False
        self.records.append((record.name, record.levelno, text, ok, record.exc_info))


_capture = None


def capture() -> Capture:
    global _capture
    if _capture is None:
        _capture = Capture()
        root = logging.getLogger()
        root.addHandler(_capture)
        root.setLevel(logging.DEBUG)
    _capture.records = []
    logging.getLogger().setLevel(logging.DEBUG)  # a previous run may have reconfigured the level
    return _capture


# ------------------------------------------------------------------------------------------------
# shadow environment
# ------------------------------------------------------------------------------------------------
class Frame:
    __slots__ = ("kind", "uid", "name", "states", "is_async", "logger", "trace", "parent_scope", "spec",
                 "tasks", "body_exc", "body_ended", "exit_returned", "child_failed", "callback", "metrics_obj",
                 "registered_seq", "body_end_seq", "completion_seq", "completion_count", "children", "records",
                 "disposables", "body_started", "left", "enter_failed", "root", "eff_logger", "eff_trace",
                 "completion_obs", "exit_seq", "parent_completed_at_registration", "entered", "actor", "completion_act",
                 "completion_raised")

    def __init__(self, kind, uid):
        self.kind = kind
        self.uid = uid
        self.states = {}
        self.tasks = []
        self.children = []
        self.records = []
        self.body_exc = None
        self.body_ended = False
        self.body_started = False
        self.exit_returned = False
        self.child_failed = False
        self.callback = 0
        self.metrics_obj = None
        self.completion_seq = None
        self.completion_count = 0
        self.completion_obs = None
        self.body_end_seq = None
        self.exit_seq = None
        self.left = None
        self.enter_failed = False
        self.disposables = []
        self.parent_scope = None
        self.entered = False
        self.completion_act = 0
        self.completion_raised = None


class Actor:
    __slots__ = ("aid", "stack", "task", "ended", "end_exc", "parent", "harness_cancel", "spawned_in", "gate_forced",
                 "via", "held", "started", "cancel_landed", "gate_forced_seq", "pending_cancel", "caught_cancels",
                 "exempt_cancel", "stale_cancel", "timeout_depth", "cancel_self_seq")

    def __init__(self, aid, stack, parent=None):
        self.aid = aid
        self.stack = stack
        self.task = None
        self.ended = False
        self.end_exc = None
        self.parent = parent
        self.harness_cancel = False
        self.spawned_in = None
        self.gate_forced = False
        self.via = None
        self.held = False
        self.started = False
        self.cancel_landed = None
        self.gate_forced_seq = None
        self.pending_cancel = False
        self.caught_cancels = 0
        self.exempt_cancel = False
        self.stale_cancel = False
        self.timeout_depth = 0
        self.cancel_self_seq = None


def _gate_forced_before(self, seq):
    return self.gate_forced and self.gate_forced_seq is not None and self.gate_forced_seq <= seq


Actor.gate_forced_before = _gate_forced_before


class DispDouble:
    def __init__(self, eng, spec, uid, scope_uid):
        self.eng = eng
        self.spec = spec
        self.uid = uid
        self.scope_uid = scope_uid
        self.enter_calls = 0
        self.enter_done = False
        self.exit_calls = []
        self.exit_exc = None
        self.enter_exc = None
        self.states = [make_state(ti, v) for ti, v in spec["states"]]
        self.raised_seq = None
        self.exit_finished = False

    def __bool__(self):
        # a disposable may be a falsy object (e.g. an empty sized resource): it still has to be entered and exited
        return not self.spec.get("falsy")

    async def __aenter__(self):
        sim = self.eng.sim
        self.enter_calls += 1
        sim.event("d-enter", self.uid)
        if self.spec["enter_raise"] or self.spec["exit_raise"]:
            sim.nontrivial = True
        if self.spec.get("enter_spawns"):
            # the resource starts a background task of the scope it belongs to (the scope's group is already current)
            self.eng.spawn_from_double(self, held=self.spec["enter_spawns"] == 2)
        if self.spec["enter_pause"]:
            await sim.pause(f"de{self.uid}")
        if self.spec["enter_raise"]:
            self.enter_exc = (InjectedBase if self.spec["enter_raise"] == 2 else Injected)(("enter", self.uid))
            self.raised_seq = sim.seq
            sim.stats["fault:disposable_enter_raise"] += 1
            raise self.enter_exc
        self.enter_done = True
        self.entered_seq = sim.event("d-entered", self.uid)
        if not self.states:
            return None
        if len(self.states) == 1 and self.spec["single"]:
            return self.states[0]
        how = self.spec.get("yield_as", 0)
        if how == 1:
            return tuple(self.states)
        if how == 2:
            return iter(list(self.states))  # a one-shot iterable is a legal Iterable[State]
        return list(self.states)

    async def __aexit__(self, et, ev, tb):
        try:
            return await self._aexit(et, ev, tb)
        finally:
            self.exit_finished = True

    async def _aexit(self, et, ev, tb):
        sim = self.eng.sim
        self.exit_calls.append((et, ev, sim.seq))
        sim.event("d-exit", self.uid)
        # cleanup code may still use the context: it sees the state of the scope it belongs to (its own yield included)
        self.eng.check_state_in_exit(self)
        if self.spec.get("exit_barrier"):
            # cleanups of one scope may depend on each other (a writer drains into a sink that is closed by its sibling):
            # every one of them has to be STARTED before any can finish
            await self.eng.exit_barrier(self)
        if self.spec.get("exit_spawns"):
            # cleanup starts a task (e.g. a final flush): the scope's group is still current, so the scope waits for it
            self.eng.spawn_from_double(self, held=self.spec["exit_spawns"] == 2, when="exit")
        if self.spec["exit_pause"]:
            await sim.pause(f"dx{self.uid}")
        if self.spec["exit_raise"]:
            if self.spec["exit_raise"] == 3:
                # cleanup built on a TaskGroup: it fails with an exception GROUP, which is the object the caller must get
                self.exit_exc = ExceptionGroup("cleanup failed", [Injected(("exit", self.uid)), Injected(("exit2", self.uid))])
            else:
                self.exit_exc = (InjectedBase if self.spec["exit_raise"] == 2 else Injected)(("exit", self.uid))
            self.raised_seq = sim.seq
            sim.stats["fault:disposable_exit_raise"] += 1
            raise self.exit_exc
        sim.event("d-exited", self.uid)
        # a disposable may answer True like a suppressing context manager: the scope must not let that swallow anything
        return True if self.spec.get("exit_true") else None


class DispObj:
    """The object handed to haiway.  It delegates to its *current use* (a DispDouble), so that one Disposables instance
    can be given to a second scope later: calls the library makes on a stale reference are counted against the
    current use (entered/exited twice, exited before the body ended, ...)."""

    def __init__(self, use):
        self.use = use

    def __bool__(self):
        return bool(self.use)

    def __eq__(self, other):
        # disposables may be value objects: distinct instances that compare equal (e.g. two pools for the same host)
        if isinstance(other, DispObj) and self.use.spec.get("eq_group") and other.use.spec.get("eq_group"):
            return True
        return self is other

    def __hash__(self):
        return 7 if self.use.spec.get("eq_group") else id(self)

    def __aenter__(self):
        coro = self.use.__aenter__()
        return PlainAwaitable(coro) if self.use.spec.get("awaitable") else coro

    def __aexit__(self, et, ev, tb):
        coro = self.use.__aexit__(et, ev, tb)
        return PlainAwaitable(coro) if self.use.spec.get("awaitable") else coro


class PlainAwaitable:
    """An awaitable that is not a coroutine (what e.g. ``asyncio.shield(...)`` or a hand-written __await__ gives)."""

    def __init__(self, coro):
        self.coro = coro

    def __await__(self):
        return self.coro.__await__()


def only_injected(exc) -> bool:
    """An injected exception, or a group whose leaves are all injected exceptions (no CancelledError wrapped in it)."""
    if isinstance(exc, BaseExceptionGroup):
        return all(only_injected(sub) for sub in exc.exceptions)
    return isinstance(exc, (Injected, InjectedBase, GeneratorExit))


def reachable(target, root, seen=None) -> bool:
    """Is `target` the exception `root`, a member of its group tree, or on a __cause__/__context__ chain?"""
    if root is None:
        return False
    if seen is None:
        seen = set()
    if id(root) in seen:
        return False
    seen.add(id(root))
    if root is target:
        return True
    if isinstance(root, BaseExceptionGroup):
        for sub in root.exceptions:
            if reachable(target, sub, seen):
                return True
    return reachable(target, root.__cause__, seen) or reachable(target, root.__context__, seen)


# ------------------------------------------------------------------------------------------------
# configuration per property/profile
# ------------------------------------------------------------------------------------------------
BASE_CFG = dict(
    w=dict(probe=0, scope=0, updated=0, spawn=0, record=0, log=0, pause=0, raise_=0, cancel_self=0,
           check_cancel=0, try_=0, gc=0, reseed=0, timeout_=0),
    max_depth=4, max_blocks=10, max_ops=6, p_async=2, disposables=0, disp_faults=0, disp_pause=1,
    completion=0, logger=0, trace=0, names=1, spawn_fail=0, spawn_gate=(1, 0, 0), spawn_via_loop=0,
    probe_each=False, pause_between=False, restore=False, owner_probe=False, top_scope=False,
    cancel_mode=None, max_actors=4, lookup=False, join=False, cancel_rules=False, disp_rules=False,
    completion_rules=False, metrics_rules=False, log_rules=False, late_children=0, raise_base=1,
    try_swallow=1, swallow_cancel=0, tick=0, prebuilt=0, reuse_disp=0,
)


def cfg_for(pid: str, profile: str) -> dict:
    deep = profile.endswith("-deep")  # thorough-only variants with larger bounds than the quick tier ever reaches
    profile = profile.removesuffix("-deep")
    c = _cfg_for(pid, profile)
    if deep:
        c.update(max_depth=c["max_depth"] + 2, max_blocks=c["max_blocks"] * 2 + 4, max_ops=10, max_actors=7,
                 disposables=c["disposables"] + 1 if c["disposables"] else 0)
    return c


def _cfg_for(pid: str, profile: str) -> dict:
    c = {k: (dict(v) if isinstance(v, dict) else v) for k, v in BASE_CFG.items()}
    w = c["w"]
    if pid == "C01":
        w.update(probe=5, scope=4, updated=3, pause=1)
        c.update(disposables=2, lookup=True, max_blocks=14, max_depth=5, prebuilt=1)
    elif pid == "C02":
        w.update(probe=1, scope=5, updated=2, pause=2, raise_=2, try_=2, spawn=1, timeout_=1)
        c.update(disposables=1, restore=True, owner_probe=True, spawn_fail=1, spawn_gate=(2, 1, 1), prebuilt=1, completion=1, logger=1)
        if profile in ("disp", "disp-sweep"):
            c.update(disposables=3, disp_faults=2)
        if profile in ("sweep", "disp-sweep", "cancel"):
            c.update(cancel_mode="sweep" if profile != "cancel" else "random")
    elif pid == "C03":
        w.update(scope=4, updated=3, spawn=3, pause=1)
        c.update(probe_each=True, pause_between=True, lookup=True, spawn_via_loop=1, top_scope="mostly", max_blocks=12,
                 disposables=2, disp_pause=2, prebuilt=1)
    elif pid == "C06":
        w.update(scope=3, updated=1, spawn=5, pause=2, raise_=1, try_=1, timeout_=1)
        c.update(join=True, spawn_fail=1, spawn_gate=(2, 2, 2), top_scope="mostly", p_async=4, disposables=1, disp_pause=2, prebuilt=1)
        if profile in ("sweep", "cancel"):
            c.update(cancel_mode="sweep" if profile == "sweep" else "random")
        if profile == "disp":
            c.update(disposables=3, disp_faults=1, p_async=7)
    elif pid == "C07":
        w.update(scope=4, updated=1, spawn=3, pause=3, cancel_self=1, check_cancel=2, try_=2, timeout_=1,
                 raise_=1 if profile in ("disp-sweep", "cancel") else 0)
        c.update(cancel_rules=True, join=False, spawn_gate=(1, 2, 2), top_scope=True, p_async=4, disposables=1,
                 disp_pause=2, try_swallow=0, swallow_cancel=1,
                 cancel_mode="sweep" if profile in ("sweep", "disp-sweep") else ("random" if profile == "cancel" else None))
        if profile == "disp-sweep":
            c.update(disposables=3, disp_faults=2, p_async=7)
    elif pid == "C08":
        w.update(scope=5, pause=2, raise_=2, try_=2, probe=1)
        c.update(disposables=4, disp_faults=2 if profile != "plain" else 0, disp_pause=2, disp_rules=True, p_async=9,
                 reuse_disp=1, prebuilt=1,
                 lookup=True, cancel_mode="sweep" if profile == "sweep" else None)
    elif pid == "C09":
        w.update(scope=6, spawn=3, pause=3, updated=1, gc=1)
        c.update(completion=3, completion_rules=True, spawn_via_loop=2, late_children=1, spawn_gate=(2, 2, 0),
                 max_blocks=6, top_scope="mostly", tick=1, trace=1, logger=1, prebuilt=1)
        if profile == "faults":
            # every exit path: body raise, failing children, failing disposables, one external cancel
            w.update(raise_=2, try_=2)
            c.update(spawn_fail=1, disposables=2, disp_faults=1, cancel_mode="random", max_blocks=8)
    elif pid == "C10":
        w.update(scope=4, spawn=2, record=6, pause=2, updated=1, gc=1)
        c.update(completion=2, metrics_rules=True, spawn_via_loop=1, spawn_gate=(2, 1, 0), max_blocks=6, tick=1,
                 disposables=2, disp_pause=2, p_async=6, prebuilt=1, trace=1)
    elif pid == "C19":
        w.update(scope=5, log=6, spawn=2, pause=1, updated=1, reseed=1)
        c.update(logger=1, trace=1, names=len(NAMES), log_rules=True, completion=1, spawn_gate=(2, 1, 0),
                 spawn_via_loop=1, prebuilt=1)
    return c


# ------------------------------------------------------------------------------------------------
# program generation
# ------------------------------------------------------------------------------------------------
class Gen:
    def __init__(self, sim, cfg):
        self.s = sim.source
        self.cfg = cfg
        self.blocks = 0
        self.val = 0
        self.used = {}
        self.last_disp_n = 0
        self.recorded = {}
        self.actors = 1
        keys = [k for k, v in cfg["w"].items() if v]
        self.keys = keys
        self.weights = [cfg["w"][k] for k in keys]

    def fresh(self):
        self.val += 1
        return self.val

    def value_for(self, ti):
        """Mostly a fresh value; sometimes the value of an earlier instance of the same type, so that a distinct
        instance compares equal to one that may be visible in an enclosing block."""
        used = self.used.setdefault(ti, [])
        if used and self.s.chance(1, 6, "equal-value"):
            return used[self.s.draw(len(used), "which-equal")]
        v = self.fresh()
        used.append(v)
        return v

    def states(self, allow_many=True):
        s = self.s
        out = []
        n = s.weighted((2, 4, 2, 1), "nstates")
        for _ in range(n):
            ti = s.draw(NTYPES, "type")
            if s.chance(1, 10, "same-instance-again"):
                # the very object an enclosing block supplies is supplied again here (together with whatever else)
                out.append((ti, "same"))
                continue
            out.append((ti, self.value_for(ti)))
            if allow_many and s.chance(1, 8, "dup-type"):
                out.append((ti, self.fresh()))
        return out

    def disp(self):
        s, c = self.s, self.cfg
        n = s.draw(c["disposables"] + 1, "ndisp")
        out = []
        for _ in range(n):
            ns = s.weighted((2, 3, 1), "dstates")
            d = {"states": [(s.draw(NTYPES, "type"), self.fresh()) for _ in range(ns)],
                 "single": bool(s.draw(2, "single")),
                 "enter_pause": int(s.chance(c["disp_pause"], 4, "epause")),
                 "exit_pause": int(s.chance(c["disp_pause"], 4, "xpause")),
                 "enter_raise": 0, "exit_raise": 0}
            if c["disp_faults"]:
                d["enter_raise"] = int(s.chance(1, 6, "eraise")) * (1 + s.weighted((3, 1), "eraise-kind"))
                d["exit_raise"] = int(s.chance(c["disp_faults"], 6, "xraise")) * (1 + s.weighted((3, 1, 1), "xraise-kind"))
                d["exit_true"] = int(s.chance(1, 6, "xtrue"))
                d["falsy"] = int(s.chance(1, 8, "falsy"))
            if not c["disp_faults"] and not c["cancel_mode"] and c["disp_rules"]:
                d["exit_barrier"] = int(s.chance(1, 3, "exit-barrier"))
            d["yield_as"] = s.weighted((3, 1, 1), "yield-as")  # list, tuple, one-shot iterator
            d["eq_group"] = int(s.chance(1, 6, "equal-disposables"))
            if c["w"]["spawn"] and self.actors < c["max_actors"] and s.chance(1, 8, "enter-spawns"):
                self.actors += 1
                d["enter_spawns"] = 1 + s.draw(2, "enter-spawn-gate")
            if c["w"]["spawn"] and self.actors < c["max_actors"] and s.chance(1, 8, "exit-spawns"):
                self.actors += 1
                d["exit_spawns"] = 1 + s.draw(2, "exit-spawn-gate")
            # __aenter__/__aexit__ need not be coroutine functions: any awaitable is a legal return value
            d["awaitable"] = int(s.chance(1, 6, "plain-awaitable"))
            out.append(d)
        return out

    def scope(self, depth, in_sync):
        s, c = self.s, self.cfg
        self.blocks += 1
        is_async = (not in_sync) and s.chance(c["p_async"], 10, "async") if c["p_async"] < 10 else not in_sync
        if c["p_async"] == 9:
            is_async = not in_sync
        spec = {"async": bool(is_async), "name": s.draw(c["names"], "name") if c["names"] > 1 else 0,
                "states": self.states(), "disp": None, "given": 0, "logger": None, "trace": None,
                "completion": 0}
        if is_async and c["disposables"]:
            d = self.disp()
            if c["reuse_disp"] and self.last_disp_n and s.chance(1, 4, "reuse-disposables"):
                while len(d) < self.last_disp_n:  # (bounded: never loops on an exhausted choice list)
                    d.append({"states": [], "single": False, "enter_pause": 0, "exit_pause": 0, "enter_raise": 0,
                              "exit_raise": 0})
                d = d[:self.last_disp_n]
                spec["reuse"] = 1
            if d or s.chance(1, 4, "empty-disp"):
                spec["disp"] = d
                spec["given"] = 0 if spec.get("reuse") else s.draw(2, "given-as")
                if d and spec["given"] == 0:
                    self.last_disp_n = len(d)
        if c["logger"] and s.chance(1, 3, "own-logger"):
            spec["logger"] = s.draw(3, "logger")
        if c["trace"] and s.chance(1, 3, "own-trace"):
            spec["trace"] = s.draw(3, "trace")
        if c["completion"]:
            if c["completion"] >= 3:
                spec["completion"] = 1 + s.draw(2, "completion")
            else:
                spec["completion"] = s.draw(3, "completion")
            if spec["completion"] and s.chance(1, 5, "completion-act"):
                # the callback is user code: it may fail, and it may use the library (open a scope, log, read state)
                spec["completion_act"] = 1 + s.draw(2, "which-act")
        if c["prebuilt"] and s.chance(1, 6, "prebuilt"):
            spec["prebuilt"] = 1  # the scope object is created before the enclosing block is entered
        body = self.block(depth + 1, in_sync or not is_async)
        return ["scope", spec, body]

    def block(self, depth, in_sync=False):
        s, c = self.s, self.cfg
        n = 1 + s.geometric(c["max_ops"] - 1, 3, "nops")
        ops = []
        for _ in range(n):
            k = self.keys[s.weighted(self.weights, "op")]
            if k in ("scope", "updated", "try_", "spawn", "timeout_") and (depth >= c["max_depth"] or self.blocks >= c["max_blocks"]):
                k = "pause" if c["w"]["pause"] else ("probe" if c["w"]["probe"] else "log" if c["w"]["log"] else "record")
                if not c["w"].get(k if k != "raise_" else "raise_", 0):
                    continue
            if k == "probe":
                ops.append(["probe", s.draw(2, "order")])
            elif k == "scope":
                ops.append(self.scope(depth, in_sync))
            elif k == "updated":
                self.blocks += 1
                sts = self.states()
                # the update object may be created before the enclosing block is entered (hoisted), and entered inside it
                flags = {"prebuilt": 1} if (c["prebuilt"] and s.chance(1, 6, "prebuilt-update")) else {}
                if c["prebuilt"] and s.chance(1, 6, "update-entered-again"):
                    # the same update object is entered a second time after it was left, where other state is current
                    flags["again"] = self.states(allow_many=False)
                ops.append(["updated", sts, self.block(depth + 1, in_sync), flags])
            elif k == "spawn":
                if self.actors >= c["max_actors"]:
                    continue
                self.actors += 1
                self.blocks += 1
                via = 1 if (c["spawn_via_loop"] and s.chance(c["spawn_via_loop"], 3, "via-loop")) else 0
                gate = s.weighted(c["spawn_gate"], "gate")
                fail = 0
                if c["spawn_fail"] and s.chance(1, 4, "child-fails"):
                    fail = 1 + s.draw(3, "fail-when")  # early, late, late with a group that wraps a CancelledError
                spec = {"gate": gate, "fail": fail}
                if c["spawn_fail"] and gate and s.chance(1, 6, "cancel-as-group"):
                    # the child answers ITS cancellation with `except* CancelledError: ...; raise`: it ends with a group
                    # wrapping the CancelledError - for asyncio a failed task, not a cancelled one
                    spec["cancel_as_group"] = 1
                if via == 0 and s.chance(1, 6, "spawn-from-callback"):
                    spec["cb"] = 1  # ctx.spawn is called by a loop callback (call_soon) scheduled inside the scope, not by a task
                ops.append(["spawn", via, spec, self.block(depth + 1, False)])
            elif k == "record":
                mt = s.weighted((3, 3, 1), "mtype")  # M0, M1, and a subclass of M0
                seen_vals = self.recorded.setdefault(mt, [])
                if seen_vals and s.chance(1, 5, "record-same-instance"):
                    v = seen_vals[s.draw(len(seen_vals), "which-recorded")]  # the very same metric object again
                else:
                    v = self.fresh()
                    seen_vals.append(v)
                ops.append(["record", mt, v, s.weighted((3, 3, 3, 1), "merge")])
            elif k == "log":
                if s.chance(1, 8, "set-level"):
                    ops.append(["loglevel", s.draw(2, "new-level")])
                ops.append(["log", s.draw(4, "level"), s.draw(7, "fmt"), s.draw(4, "exc")])
            elif k == "pause":
                ops.append(["pause"])
            elif k == "timeout_":
                if in_sync:
                    continue
                # the standard library's own cancellation scope around library calls: `async with asyncio.timeout(0)` expires at the
                # next loop iteration, cancels the task and turns that cancellation into TimeoutError when it arrives at its exit
                self.blocks += 1
                ops.append(["timeout", self.block(depth + 1, in_sync)])
            elif k == "gc":
                ops.append(["gc"])  # a cyclic garbage collection happens here
            elif k == "reseed":
                ops.append(["reseed"])  # the application seeds the global `random` generator with a constant
            elif k == "raise_":
                ops.append(["raise", (1 + s.weighted((2, 1), "base-kind")) if (c["raise_base"] and s.chance(1, 4, "base"))
                            else (0, 3, 4)[s.weighted((6, 1, 1), "exc-shape")]])
                break
            elif k == "cancel_self":
                ops.append(["cancel_self"])
                if c["w"]["check_cancel"] and s.chance(2, 3, "then-check"):
                    ops.append(["check_cancel"])
            elif k == "check_cancel":
                # now and then the check is made by blocking code running in a worker thread (there is no task there)
                how = s.weighted((4, 1, 1), "check-how")
                # ... or inside the handler of a CancelledError that was NOT addressed to this task (an awaited future was cancelled)
                ops.append((["check_cancel"], ["check_cancel_thread"], ["check_cancel_foreign"])[how])
            elif k == "try_":
                self.blocks += 1
                body = self.block(depth + 1, in_sync)
                cleanup = []
                if c["w"]["spawn"] and self.actors < c["max_actors"] and s.chance(1, 3, "cleanup-spawns"):
                    # cleanup code that spawns (runs while the enclosing group may already be shutting down)
                    self.actors += 1
                    cleanup = [["spawn", 0, {"gate": s.weighted(c["spawn_gate"], "gate"), "fail": 0}, [["pause"]]]]
                catches = int(bool(c["swallow_cancel"]) and s.chance(1, 3, "catches-cancel"))
                if catches and c["w"]["cancel_self"] and s.chance(1, 3, "handler-cancels-again"):
                    cleanup = [*cleanup, ["cancel_self"]]  # the handler swallows this request but asks for a new one (ctx.cancel)
                ops.append(["try", body, int(c["try_swallow"] and s.draw(2, "swallow")), cleanup, catches])
        return ops

    def program(self):
        c = self.cfg
        ops = self.block(0)
        if c["lookup"] and not c["disp_rules"] and self.s.chance(1, 40, "deep-chain"):
            # a very long chain of nested updates (entered through an ExitStack, so the Python stack stays shallow)
            ops.append(["deep", 1200, self.s.draw(NTYPES, "deep-type"), self.fresh()])
        if c["top_scope"] and not (c["top_scope"] == "mostly" and self.s.chance(1, 4, "no-top-scope")):
            self.blocks += 1
            spec = {"async": True, "name": 1, "states": self.states(), "disp": None, "given": 0, "logger": None,
                    "trace": None, "completion": (1 + self.s.draw(2, "completion")) if c["completion"] else 0}
            ops = [["scope", spec, ops]]
        return ops


# ------------------------------------------------------------------------------------------------
# the interpreter
# ------------------------------------------------------------------------------------------------
class Engine:
    def __init__(self, sim, cfg, pid, profile):
        self.sim = sim
        self.cfg = cfg
        self.pid = pid
        self.profile = profile
        self.fam = family()
        self.uid = 0
        self.frames = []  # every scope frame ever created
        self.actors = []
        self.disps = []
        self.cap = capture() if (cfg["log_rules"] or cfg["restore"]) else None
        self.logn = 0
        self.log_expect = []
        self.roots = {}
        self.uncaught_exit_errors = []
        self.cancel_info = None
        self.loggers = [logging.getLogger(f"hv-L{i}") for i in range(3)]
        # a scope may be given a LoggerAdapter (it has .log and .name, but none of Logger's other attributes)
        self.loggers[2] = logging.LoggerAdapter(self.loggers[2], {})
        self.prebuilt = {}
        self.last_disposables = {}
        self.metric_objs = {}
        self._idents = {}
        self.root_level = logging.DEBUG
        self.scope_idents = {}
        self.barriers = {}

    # -- helpers ------------------------------------------------------------------------------
    def ident(self, obj):
        """Small stable number for an object (first appearance), so that messages never contain addresses."""
        key = id(obj)
        got = self._idents.get(key)
        if got is None or got[1] is not obj:
            got = (len(self._idents) + 1, obj)
            self._idents[key] = got
        return got[0]

    def next_uid(self):
        self.uid += 1
        return self.uid

    def innermost_scope(self, stack):
        for f in reversed(stack):
            if f.kind == "scope":
                return f
        return None

    def innermost_async(self, stack):
        for f in reversed(stack):
            if f.kind == "scope" and f.is_async:
                return f
        return None

    def expected_state(self, stack, ti):
        for f in reversed(stack):
            got = f.states.get(ti)
            if got:
                return got
        return None

    # -- probes -------------------------------------------------------------------------------
    def probe(self, actor, order=0, check=True):
        """ctx.state for every family type, with and without explicit default; returns an observation."""
        from haiway import MissingContext, MissingState, ctx

        sim = self.sim
        fam = self.fam
        obs = []
        in_ctx = bool(actor.stack)
        for ti, T in enumerate(fam["types"]):
            if ti == 3:
                T = fam["generic"][int]  # a fresh subscription expression: must name the same specialised type
            elif ti == 4:
                T = fam["generic"][str]
            modes = ("plain", "default") if order == 0 else ("default", "plain")
            for mode in modes:
                dflt = make_state(ti, 900000 + ti) if mode == "default" else None
                try:
                    r = ctx.state(T) if dflt is None else ctx.state(T, default=dflt)
                    ans = ("inst", r)
                except MissingContext:
                    ans = ("nocontext", None)
                except MissingState:
                    ans = ("missing", None)
                except SimStop:
                    raise
                except BaseException as exc:  # noqa: BLE001
                    ans = ("error", exc)
                if check and self.cfg["lookup"]:
                    self.judge_lookup(actor, ti, mode, dflt, ans, in_ctx)
                if ans[0] == "inst":
                    # identity for supplied instances, value for default-constructed ones
                    cands = self.expected_state(actor.stack, ti) if in_ctx else None
                    if cands and any(ans[1] is c for c in cands):
                        obs.append((ti, mode, "supplied", self.ident(ans[1])))
                    elif ans[1] is dflt:
                        obs.append((ti, mode, "explicit-default", 0))
                    else:
                        obs.append((ti, mode, "value", repr(ans[1]), type(ans[1]).__name__,
                                    self.ident(ans[1]) if self.is_supplied_anywhere(ans[1]) else 0))
                else:
                    obs.append((ti, mode, ans[0], type(ans[1]).__name__ if ans[1] is not None else ""))
        if check and self.cfg["lookup"] and not self.cfg["disp_rules"] and in_ctx:
            # nobody ever supplies the UNPARAMETRISED generic: its specialisations are other types, so asking for it gives the
            # explicit default, else a default-constructed instance of exactly G (else MissingState)
            G = fam["generic"]
            dflt = fam["types"][3](v=424242)
            for kw in ({}, {"default": dflt}):
                try:
                    r = ctx.state(G, **kw)
                    ans = ("inst", r)
                except MissingState:
                    ans = ("missing", None)
                except SimStop:
                    raise
                except BaseException as exc:  # noqa: BLE001
                    ans = ("error", exc)
                try:
                    constructed = G()  # (a type-variable attribute accepts anything, MISSING included: the bare generic is defaultable)
                except Exception:  # noqa: BLE001
                    constructed = None
                if kw:
                    want_ok = ans[0] == "inst" and ans[1] is dflt
                elif constructed is not None:
                    want_ok = ans[0] == "inst" and type(ans[1]) is G and ans[1] == constructed
                else:
                    want_ok = ans[0] == "missing"
                if not want_ok:
                    sim.fail("lookup-unparametrised-generic", f"ctx.state(G{', default=X' if kw else ''}) returned {ans[1]!r} ({ans[0]}): only "
                             f"specialisations of G are ever supplied (expected the explicit default / a default-constructed G)", default=int(bool(kw)))
        sim.event("probe", actor.aid, len(actor.stack))
        return obs

    def is_supplied_anywhere(self, inst):
        for f in self.all_frames:
            for lst in f.states.values():
                for x in lst:
                    if x is inst:
                        return True
        return False

    all_frames: list = []

    def judge_lookup(self, actor, ti, mode, dflt, ans, in_ctx):
        sim = self.sim
        fam = self.fam
        name = fam["names"][ti]
        where = f"actor {actor.aid} depth {len(actor.stack)}"
        if self.cfg["disp_rules"] and not in_ctx:
            return
        if not in_ctx:
            if ans[0] != "nocontext":
                sim.fail("lookup-outside", f"{where}: ctx.state({name}) outside every scope gave {ans[0]} {ans[1]!r}, expected MissingContext")
            return
        cands = self.expected_state(actor.stack, ti)
        if self.cfg["disp_rules"]:
            # C08 only claims: state yielded by disposables is visible inside the scope
            inner = actor.stack[-1]
            mine = [st for d in inner.disposables for st in d.states if type(st) is self.fam["types"][ti]] if inner.kind == "scope" else []
            if not mine:
                return
            if ans[0] != "inst" or not any(ans[1] is c for c in mine):
                # (also when the scope was given a state of the same type explicitly: what the disposables yield is visible)
                hidden = ans[0] == "inst" and any(ans[1] is c for c in inner.states.get(ti, ()))
                sim.fail("disposable-state-invisible", f"{where}: disposables of the scope yielded {mine!r} but ctx.state({name}) gave {ans[1]!r} ({ans[0]})",
                         **({"hidden_by": "explicit-state"} if hidden else {}))
            return
        if cands:
            if ans[0] != "inst" or not any(ans[1] is c for c in cands):
                inner = "stale-outer" if (ans[0] == "inst" and self.is_supplied_anywhere(ans[1])) else ans[0]
                sim.fail("lookup", f"{where}: ctx.state({name}, {mode}) returned {ans[1]!r} ({ans[0]}), expected the instance "
                         f"supplied by the innermost block: {cands!r}", mode=mode, got=inner)
            return
        if mode == "default":
            if ans[0] != "inst" or ans[1] is not dflt:
                sim.fail("lookup-default", f"{where}: no enclosing block supplies {name}; ctx.state({name}, default=X) returned "
                         f"{ans[1]!r} ({ans[0]}) instead of the caller's explicit default X={dflt!r}",
                         got="cached-default" if ans[0] == "inst" else ans[0])
            return
        if fam["defaultable"][ti]:
            T = fam["types"][ti]
            if ans[0] != "inst" or type(ans[1]) is not T or ans[1] != T():
                sim.fail("lookup-constructed", f"{where}: no enclosing block supplies {name}; expected a default-constructed "
                         f"{name}, got {ans[1]!r} ({ans[0]})", got=ans[0])
            return
        if ans[0] != "missing":
            sim.fail("lookup-missing", f"{where}: no enclosing block supplies {name} (required attribute): expected MissingState, "
                     f"got {ans[1]!r} ({ans[0]})", got=ans[0])

    def log_probe(self, actor):
        """One probe log line; returns (logger name, rendered prefix)."""
        from haiway import ctx
        self.logn += 1
        marker = f"hv#{self.logn}#"
        n0 = len(self.cap.records)
        ctx.log_info(marker)
        for name, _lvl, text, ok, _ei in self.cap.records[n0:]:
            if marker in text:
                return (name, text[:text.index(marker)], ok)
        return (None, None, False)

    def owner_probe(self, actor):
        """Which task group adopts a no-op task spawned here (identity), None if detached."""
        from haiway import ctx

        eager = getattr(self.sim, "eager", False)

        async def noop():
            if eager:
                await asyncio.sleep(0)  # (stay pending for one iteration: a task that finished eagerly has no owner to show)
            return None

        try:
            t = ctx.spawn(noop)
        except SimStop:
            raise
        except BaseException:  # noqa: BLE001
            # the adopting group refuses new tasks.  That is legitimate only while the group the shadow stack says we
            # are in is (possibly) shutting down; otherwise the refusal itself shows that a stale group is current.
            scope = self.innermost_async(actor.stack)
            if scope is None:
                return ("refused", "no enclosing async scope")
            if scope.child_failed or scope.body_ended or (scope.actor is not actor and scope.actor.cancel_landed is not None):
                return None
            return ("refused", f"group of scope #{scope.uid} is not shutting down")
        owner = None
        try:
            for cb, _c in (t._callbacks or ()):
                o = getattr(cb, "__self__", None)
                if isinstance(o, asyncio.TaskGroup):
                    owner = o
        except AttributeError:
            owner = None
        return ("group", self.ident(owner) if owner is not None else 0)

    @staticmethod
    def owner_of(task):
        try:
            for cb, _c in (task._callbacks or ()):
                o = getattr(cb, "__self__", None)
                if isinstance(o, asyncio.TaskGroup):
                    return o
        except AttributeError:
            pass
        return None

    def observe(self, actor):
        obs = {"state": self.probe(actor, 0, check=False)}
        if self.cap is not None:
            obs["log"] = self.log_probe(actor)
        if self.cfg["owner_probe"]:
            obs["owner"] = self.owner_probe(actor)
        return obs

    # -- ops ----------------------------------------------------------------------------------
    async def run_ops(self, actor, ops):
        cfg = self.cfg
        sim = self.sim
        for op in ops:
            kind = op[0]
            if kind == "probe":
                self.probe(actor, op[1])
            elif kind == "pause":
                await sim.pause(f"a{actor.aid}")
            elif kind == "gc":
                import gc
                gc.collect()
                sim.stats["fault:gc_collect"] += 1
                sim.event("gc")
            elif kind == "reseed":
                import random
                random.seed(20261004)
                sim.event("reseed")
            elif kind == "deep":
                await self.op_deep(actor, op)
            elif kind == "timeout":
                await self.op_timeout(actor, op)
            elif kind == "scope":
                await self.op_scope(actor, op)
            elif kind == "updated":
                await self.op_updated(actor, op)
            elif kind == "spawn":
                if op[2].get("cb"):
                    sim.stats["spawn_from_loop_callback"] += 1
                    sim.loop.call_soon(self.op_spawn, actor, op)
                    await asyncio.sleep(0)  # (the ready queue is FIFO: the callback has run when the actor resumes)
                else:
                    self.op_spawn(actor, op)
            elif kind == "record":
                self.op_record(actor, op)
            elif kind == "log":
                self.op_log(actor, op)
            elif kind == "loglevel":
                # the application reconfigures logging while scopes are open
                self.root_level = (logging.DEBUG, logging.WARNING)[op[1]]
                logging.getLogger().setLevel(self.root_level)
                sim.event("loglevel", op[1])
            elif kind == "raise":
                sim.stats["fault:body_raise"] += 1
                sim.nontrivial = True
                # (kind 2 is a plain GeneratorExit: a scope inside an async generator that is being closed)
                raise (Injected, InjectedBase, GeneratorExit, FrozenInjected, FalsyInjected)[op[1]](("raise", actor.aid, sim.seq))
            elif kind == "cancel_self":
                self.op_cancel_self(actor)
            elif kind == "check_cancel":
                self.op_check_cancel(actor)
            elif kind == "check_cancel_thread":
                self.op_check_cancel_thread(actor)
            elif kind == "check_cancel_foreign":
                fut = sim.loop.create_future()
                fut.cancel()
                try:
                    await fut  # (raises at once: the future is already cancelled; nobody asked THIS task to cancel)
                except asyncio.CancelledError:
                    if actor.pending_cancel or actor.harness_cancel:
                        raise  # the task's own cancellation arrived here instead
                    sim.stats["check_cancellation_while_handling_foreign_cancel"] += 1
                    self.op_check_cancel(actor, where="foreign-cancel")
            elif kind == "try":
                await self.op_try(actor, op)
            if cfg["probe_each"]:
                self.probe(actor, actor.aid % 2)
            if cfg["pause_between"]:
                await sim.pause(f"a{actor.aid}")

    def new_scope_frame(self, actor, spec):
        f = Frame("scope", self.next_uid())
        f.spec = spec
        f.name = NAMES[spec["name"]]
        f.is_async = spec["async"]
        resolve_states(self, actor, spec["states"], f)
        parent = self.innermost_scope(actor.stack)
        f.actor = actor
        f.parent_scope = parent
        f.root = parent.root if parent is not None else f
        f.logger = self.loggers[spec["logger"]] if spec["logger"] is not None else None
        f.trace = (("trace-%d-{}", "t%2F-{}", "trace-{}")[spec["trace"] % 3]).format(f.uid) if spec["trace"] is not None else None
        f.callback = spec["completion"]
        f.completion_act = spec.get("completion_act", 0)
        self.frames.append(f)
        self.all_frames.append(f)
        return f

    def make_completion(self, f):
        sim = self.sim
        eng = self

        def observe(metrics):
            f.completion_count += 1
            f.metrics_obj = metrics
            if f.completion_seq is None:
                f.completion_seq = sim.event("completion", f.uid)
                try:
                    f.completion_obs = {"is_completed": metrics.is_completed, "time": metrics.time, "now": sim.now,
                                        "values": eng.read_metrics(metrics), "merged": eng.merged_views(metrics)}
                except SimStop:
                    raise
                except BaseException as exc:  # noqa: BLE001
                    f.completion_obs = {"error": exc}
            if f.completion_act == 2:
                from haiway import ctx
                sim.stats["completion_callback_used_the_library"] += 1
                try:
                    with ctx.scope("in-completion"):
                        ctx.log_info("from a completion callback")
                        try:
                            ctx.state(eng.fam["types"][0])
                        except Exception:  # noqa: BLE001 - whatever state is visible there is not specified
                            pass
                except SimStop:
                    raise
                except BaseException as exc:  # noqa: BLE001
                    sim.fail("completion-callback-failed", f"a scope opened inside the completion callback of scope #{f.uid} failed with {exc!r}")
            elif f.completion_act == 1:
                sim.stats["fault:completion_callback_raises"] += 1
                f.completion_raised = Injected(("completion", f.uid))
                raise f.completion_raised

        if f.callback == 1:
            def completion(metrics):
                observe(metrics)
            return completion
        if f.callback == 2:
            async def acompletion(metrics):
                observe(metrics)
            return acompletion
        return None

    def read_metrics(self, metrics):
        out = []
        for M in self.fam["metrics"]:
            out.append(metrics.read(M))
        return out

    def merged_views(self, metrics):
        if not self.cfg["metrics_rules"]:
            return None
        from haiway import MISSING
        M0, M1 = self.fam["metrics"]

        def m_sum(cur, new):
            if cur is MISSING:
                return new
            if isinstance(new, M0):
                return type(new)(v=cur.v + new.v)
            return M1(items=(*cur.items, *new.items))

        def m_first(cur, new):
            return new if cur is MISSING else cur

        return {"sum": metrics.metrics(merge=m_sum), "first": metrics.metrics(merge=m_first)}

    def prepare_scope(self, actor, op):
        """Everything up to and including the ``ctx.scope(...)`` call (the library registers the scope's metrics under
        the scope that is current *now*); entering may happen later and elsewhere (a prepared scope object)."""
        from haiway import Disposables, ctx

        sim = self.sim
        _k, spec, body = op
        parent = self.innermost_scope(actor.stack)
        f = self.new_scope_frame(actor, spec)
        f.registered_seq = sim.event("scope-create", f.uid, actor.aid)
        pstate = self.completed_state(parent) if parent is not None else "no"
        f.parent_completed_at_registration = pstate  # 'yes' | 'no' | 'maybe'
        if pstate == "yes":
            sim.stats["scope_created_under_completed_parent"] += 1
        if parent is not None:
            parent.children.append(f)
        disposables = None
        doubles = []
        if spec["disp"] is not None:
            doubles = [DispDouble(self, d, self.next_uid(), f.uid) for d in spec["disp"]]
            f.disposables = doubles
            self.disps.extend(doubles)
            last = self.last_disposables.get(actor.aid)
            if (spec.get("reuse") and spec["given"] == 0 and last is not None and last[2].exit_returned
                    and len(last[1]) == len(doubles)):
                # the same Disposables instance is given to a second scope (after the first one was left)
                disposables, objects = last[0], last[1]
                for obj, use in zip(objects, doubles):
                    obj.use = use
                sim.stats["disposables_instance_reused"] += 1
            else:
                objects = [DispObj(d) for d in doubles]
                disposables = Disposables(*objects) if spec["given"] == 0 else list(objects)
            if spec["given"] == 0:
                self.last_disposables[actor.aid] = (disposables, objects, f)
        kwargs = {}
        if disposables is not None:
            kwargs["disposables"] = disposables
        if f.logger is not None:
            kwargs["logger"] = f.logger
        if f.trace is not None:
            kwargs["trace_id"] = f.trace
        cb = self.make_completion(f)
        if cb is not None:
            kwargs["completion"] = cb
        states = [x for lst in f.states.values() for x in lst]
        cm = ctx.scope(f.name, *states, **kwargs)
        return f, cm, doubles

    def prebuild_children(self, actor, body):
        """Scope objects flagged 'prebuilt' are created before their parent block is entered."""
        for child in body:
            if child[0] == "scope" and child[1].get("prebuilt"):
                self.prebuilt[id(child)] = self.prepare_scope(actor, child)
                self.sim.stats["scope_object_prepared_outside_its_parent"] += 1
            elif child[0] == "updated" and len(child) > 3 and child[3].get("prebuilt"):
                self.prebuilt[id(child)] = self.prepare_updated(actor, child)
                self.sim.stats["update_object_prepared_outside_its_parent"] += 1

    def prepare_updated(self, actor, op):
        from haiway import ctx
        f = Frame("updated", self.next_uid())
        self.all_frames.append(f)
        resolve_states(self, actor, op[1], f)
        states = [x for lst in f.states.values() for x in lst]
        return f, ctx.updated(*states)

    async def op_scope(self, actor, op):
        sim = self.sim
        cfg = self.cfg
        _k, spec, body = op
        before = self.observe(actor) if cfg["restore"] else None
        if len(actor.stack) >= 1:
            sim.nontrivial = True
        prepared = self.prebuilt.pop(id(op), None)
        f, cm, doubles = prepared if prepared is not None else self.prepare_scope(actor, op)
        if cfg["prebuilt"]:
            self.prebuild_children(actor, body)
        pushed = False
        left = None
        try:
            if f.is_async:
                async with cm:
                    f.entered = True
                    for d in doubles:
                        for st in d.states:
                            f.states.setdefault(self.fam["types"].index(type(st)), []).append(st)
                    actor.stack.append(f)
                    pushed = True
                    f.body_started = True
                    sim.event("body-start", f.uid)
                    try:
                        await self.run_ops(actor, body)
                    except BaseException as exc:
                        f.body_exc = exc
                        raise
                    finally:
                        f.body_ended = True
                        actor.stack.pop()
                        pushed = False
                        f.body_end_seq = sim.event("body-end", f.uid, type(f.body_exc).__name__ if f.body_exc is not None else "")
            else:
                with cm:
                    f.entered = True
                    actor.stack.append(f)
                    pushed = True
                    f.body_started = True
                    sim.event("body-start", f.uid)
                    try:
                        await self.run_ops(actor, body)
                    except BaseException as exc:
                        f.body_exc = exc
                        raise
                    finally:
                        f.body_ended = True
                        actor.stack.pop()
                        pushed = False
                        f.body_end_seq = sim.event("body-end", f.uid, type(f.body_exc).__name__ if f.body_exc is not None else "")
        except SimStop:
            raise
        except BaseException as exc:  # noqa: BLE001
            left = exc
        finally:
            if pushed:
                actor.stack.pop()
        f.exit_returned = True
        f.left = left
        f.exit_seq = sim.event("scope-left", f.uid, type(left).__name__ if left is not None else "")
        if not f.body_started:
            f.enter_failed = True
        self.after_scope(actor, f, before, left)
        if left is not None:
            raise left

    def scope_completed(self, f):
        return self.completed_state(f) != "no"

    def completed_state(self, f):
        """Could the library have completed scope f by now?  'no' (surely not), 'yes' (surely), 'maybe'."""
        if f.completion_seq is not None:
            return "yes"
        if not f.body_ended and f.entered:
            return "no"
        if not f.entered and not f.exit_returned:
            return "no"  # created, not entered yet
        result = "yes" if f.exit_returned else "maybe"
        for c in f.children:
            if c.parent_completed_at_registration == "yes":
                continue
            cs = self.completed_state(c)
            if cs == "no":
                if c.parent_completed_at_registration == "no":
                    return "no"
                result = "maybe"
            elif cs == "maybe":
                result = "maybe"
        return result

    def after_scope(self, actor, f, before, left):
        sim = self.sim
        cfg = self.cfg
        # ---- C06: structured concurrency --------------------------------------------------------
        if cfg["join"] and f.is_async:
            for child in f.tasks:
                if child.task is not None and not child.task.done():
                    sim.fail("outlived", f"scope #{f.uid} ({'failed' if left is not None else 'returned'}) was left while task of "
                             f"actor {child.aid} spawned into it is still pending", body="raised" if left is not None else "returned")
            cancelled_in_exit = (actor.cancel_landed is not None and f.body_end_seq is not None
                                 and actor.cancel_landed > f.body_end_seq)
            entry_failed = not f.body_started and left is not None
            if f.body_exc is not None or cancelled_in_exit or entry_failed:
                if entry_failed:
                    after = f.registered_seq  # tasks spawned while entering (by disposables) must go when the entry fails
                else:
                    after = max(f.body_end_seq or 0, actor.cancel_landed or 0) if f.body_exc is None else f.body_end_seq
                for child in f.tasks:
                    if child.held and child.gate_forced and child.gate_forced_seq > after:
                        sim.fail("awaited-instead-of-cancelled", f"scope #{f.uid} "
                                 f"{'body failed with ' + describe_exc(f.body_exc) if f.body_exc is not None else ('could not be entered' if entry_failed else 'was cancelled while being left')}"
                                 f" but blocked child actor {child.aid} was awaited until its gate had to be forced",
                                 how="body-failed" if f.body_exc is not None else ("entry-failed" if entry_failed else "cancelled-in-exit"))
        # ---- C07: a scope left by a cancellation leaves no task of its own running ------------------------
        if cfg["cancel_rules"] and f.is_async and isinstance(left, asyncio.CancelledError):
            for child in f.tasks:
                if child.task is not None and not child.task.done():
                    sim.fail("child-outlived-cancelled-scope", f"scope #{f.uid} was left by a cancellation but the task of actor {child.aid}, "
                             f"spawned into it, is still running (it was neither awaited nor cancelled)")
        # ---- C08: exit errors must reach the caller -------------------------------------------------
        cancel_hit = (actor.cancel_landed is not None and f.registered_seq < actor.cancel_landed
                      and (not f.body_started or (f.body_end_seq is not None and actor.cancel_landed > f.body_end_seq)))
        if cfg["disp_rules"] and f.disposables and cancel_hit:
            sim.stats["exempt:cancel_during_enter_or_exit"] += 1
        if cfg["disp_rules"] and f.disposables and not cancel_hit:
            for d in f.disposables:
                if d.exit_exc is not None and not reachable(d.exit_exc, left):
                    n_err = sum(1 for x in f.disposables if x.exit_exc is not None)
                    sim.fail("exit-error-vanished", f"disposable #{d.uid} of scope #{f.uid} raised {describe_exc(d.exit_exc)} in "
                             f"__aexit__ but the caller caught {describe_exc(left) if left is not None else 'nothing'}",
                             n_exit_errors=min(n_err, 2), body="raised" if f.body_exc is not None else "returned")
                if d.enter_exc is not None and left is None:
                    sim.fail("enter-error-vanished", f"disposable #{d.uid} of scope #{f.uid} raised in __aenter__ but the block "
                             f"raised nothing")
            if any(d.enter_exc is not None for d in f.disposables) and f.body_started:
                sim.fail("body-ran-after-enter-failure", f"scope #{f.uid}: a disposable failed to enter but the body ran")
        # ---- C09: leaving must not fail because of bookkeeping ---------------------------------
        if (cfg["completion_rules"] or cfg["restore"]) and left is not None:
            leaked = [g for g in self.frames if g.completion_raised is not None and reachable(g.completion_raised, left)]
            if leaked:
                sim.fail("completion-error-leaked", f"leaving scope #{f.uid} raised {describe_exc(left)}: the error of the completion callback of "
                         f"scope #{leaked[0].uid} (user code run after completion) came out of the block")
        if cfg["completion_rules"] and left is not None and left is not f.body_exc:
            if isinstance(left, AssertionError):
                sim.fail("exit-assertion", f"leaving scope #{f.uid} raised {left!r} (completion bookkeeping; parent completed at "
                         f"creation: {f.parent_completed_at_registration})")
        # ---- C02: restore -------------------------------------------------------------------------
        if cfg["restore"]:
            after = self.observe(actor)
            cleanup_failed = any(d.exit_exc is not None or d.enter_exc is not None for d in f.disposables)
            how = self.exit_path(actor, f, left)
            for key in ("state", "log", "owner"):
                if key in before and before[key] is not None and after[key] is not None and before[key] != after[key]:
                    detail = self.diff(before[key], after[key])
                    sim.fail(f"restore-{key}", f"after leaving scope #{f.uid} ({how}) the surrounding code of actor {actor.aid} "
                             f"sees a different {key}: {detail}", path=how)
            # a CancelledError may replace the outcome of the block only if somebody could have cancelled this task: the
            # harness (external cancel / ctx.cancel), or - for tasks spawned into a group - that group aborting, or an
            # ENCLOSING scope whose child failed (it aborts and cancels this task); the scope's own group never lets the
            # cancellation it requested itself escape
            cancellable = (actor.harness_cancel or actor.cancel_landed is not None or actor.spawned_in is not None
                           or actor.stale_cancel or actor.timeout_depth > 0
                           or any(g.kind == "scope" and g.is_async and g.child_failed for g in actor.stack))
            if f.body_exc is not None and left is not f.body_exc:
                cancelled_in_exit = isinstance(left, asyncio.CancelledError) and cancellable
                if not cleanup_failed and not cancelled_in_exit:
                    sim.fail("exception-identity", f"body of scope #{f.uid} raised {describe_exc(f.body_exc)} but the caller got "
                             f"{describe_exc(left) if left is not None else 'nothing'}", path=how)
                elif not reachable(f.body_exc, left) and left is not None and not cancelled_in_exit:
                    sim.fail("exception-identity", f"body exception {describe_exc(f.body_exc)} not reachable from {describe_exc(left)}",
                             path=how)
            if f.body_exc is None and left is not None and not cleanup_failed and f.body_started \
                    and not (isinstance(left, asyncio.CancelledError) and cancellable):
                sim.fail("spurious-exception", f"scope #{f.uid} body returned normally but the block raised {describe_exc(left)}",
                         path=how)

    def exit_path(self, actor, f, left):
        if any(d.enter_exc is not None for d in f.disposables):
            return "disposable-enter-failed"
        if any(d.exit_exc is not None for d in f.disposables):
            n = sum(1 for d in f.disposables if d.exit_exc is not None)
            return f"disposable-exit-failed-{min(n, 2)}"
        if not f.body_started:
            return "cancelled-in-enter" if isinstance(left, asyncio.CancelledError) else "enter-failed"
        if f.body_exc is None:
            if isinstance(left, asyncio.CancelledError):
                return "cancelled-in-exit"
            return "return" if left is None else "exit-raised"
        if isinstance(f.body_exc, asyncio.CancelledError):
            if f.child_failed:
                return "child-failed"
            return "body-cancelled"
        if left is not f.body_exc and isinstance(left, asyncio.CancelledError):
            return "cancelled-in-exit"
        return "body-raised-base" if isinstance(f.body_exc, (InjectedBase, GeneratorExit)) else "body-raised"

    @staticmethod
    def diff(a, b):
        if isinstance(a, list) and isinstance(b, list):
            for x, y in zip(a, b):
                if x != y:
                    return f"before {x} after {y}"
        return f"before {a} after {b}"

    async def op_updated(self, actor, op):
        from haiway import ctx
        sim = self.sim
        cfg = self.cfg
        _k, sts, body = op[:3]
        before = self.observe(actor) if cfg["restore"] else None
        prepared = self.prebuilt.pop(id(op), None)
        f, cm = prepared if prepared is not None else self.prepare_updated(actor, op)
        if prepared is not None and actor.stack:
            sim.nontrivial = True
        if cfg["prebuilt"]:
            self.prebuild_children(actor, body)
        in_ctx = bool(actor.stack)
        left = None
        body_exc = None
        pushed = False
        try:
            with cm:
                actor.stack.append(f)
                pushed = True
                try:
                    await self.run_ops(actor, body)
                except BaseException as exc:
                    body_exc = exc
                    raise
                finally:
                    actor.stack.pop()
                    pushed = False
        except SimStop:
            raise
        except BaseException as exc:  # noqa: BLE001
            left = exc
        finally:
            if pushed:
                actor.stack.pop()
        if cfg["restore"]:
            after = self.observe(actor)
            how = "return" if left is None else ("body-cancelled" if isinstance(left, asyncio.CancelledError) else "body-raised")
            for key in ("state", "log", "owner"):
                if key in before and before[key] is not None and after[key] is not None and before[key] != after[key]:
                    sim.fail(f"restore-{key}", f"after leaving update block #{f.uid} ({how}) actor {actor.aid} sees a different "
                             f"{key}: {self.diff(before[key], after[key])}", path="updated-" + how)
            if body_exc is not None and left is not body_exc:
                sim.fail("exception-identity", f"body of update block raised {describe_exc(body_exc)} but the caller got "
                         f"{describe_exc(left) if left is not None else 'nothing'}", path="updated")
        again = op[3].get("again") if len(op) > 3 else None
        if again is not None and left is None:
            # second, later use of the very same update object - inside another update, so the enclosing state differs
            sim.stats["update_object_entered_again"] += 1
            f2 = Frame("updated", self.next_uid())
            self.all_frames.append(f2)
            resolve_states(self, actor, again, f2)
            before2 = self.observe(actor) if cfg["restore"] else None
            with ctx.updated(*[x for lst in f2.states.values() for x in lst]):
                actor.stack.append(f2)
                try:
                    with cm:
                        actor.stack.append(f)
                        try:
                            self.probe(actor, 0)
                        finally:
                            actor.stack.pop()
                    self.probe(actor, 1)
                finally:
                    actor.stack.pop()
            if cfg["restore"]:
                after2 = self.observe(actor)
                for key in ("state", "log", "owner"):
                    if key in before2 and before2[key] is not None and after2[key] is not None and before2[key] != after2[key]:
                        sim.fail(f"restore-{key}", f"after the second use of update block #{f.uid} actor {actor.aid} sees a different "
                                 f"{key}: {self.diff(before2[key], after2[key])}", path="updated-again")
        if left is not None:
            raise left

    async def op_timeout(self, actor, op):
        """`async with asyncio.timeout(0): <body>` - the deadline has passed when the block is entered, so asyncio cancels the task
        at the next loop iteration (if the body is suspended then) and its __aexit__ converts the CancelledError that comes up
        through the library's blocks into TimeoutError, restoring Task.cancelling().  A cancellation the library loses on the
        way shows as: the timeout expired, yet no TimeoutError came out and nobody else caught the cancellation."""
        sim = self.sim
        task = asyncio.current_task()
        caught0 = actor.caught_cancels
        cancelling0 = task.cancelling()
        depth0 = len(actor.stack)
        body_exc = None
        raised = None
        cm = asyncio.timeout(0)
        seq0 = sim.event("timeout-enter", actor.aid)
        nframes0 = len(self.frames)
        actor.timeout_depth += 1
        try:
            async with cm:
                try:
                    await self.run_ops(actor, op[1])
                except BaseException as exc:
                    body_exc = exc
                    raise
        except TimeoutError as exc:
            raised = exc
        finally:
            del actor.stack[depth0:]
            actor.timeout_depth -= 1
        expired = cm.expired()
        sim.event("timeout-exit", actor.aid, expired, type(raised).__name__)
        if raised is not None and actor.pending_cancel:
            # asyncio.timeout() attributes whatever CancelledError arrives at its exit to itself once it has expired: a request
            # made by somebody else that was still pending is consumed by it - by the standard library, i.e. by user-level code
            actor.pending_cancel = False
            actor.caught_cancels += 1
            if actor.cancel_landed is not None:
                actor.exempt_cancel = True
            sim.stats["cancellation_consumed_by_asyncio_timeout"] += 1
        if expired:
            sim.stats["fault:asyncio_timeout_expired"] += 1
            sim.nontrivial = True
        disturbed = (actor.harness_cancel or actor.cancel_landed is not None or actor.stale_cancel
                     # a user cleanup error (a disposable double that raised) may replace the propagating cancellation ...
                     or self.double_raised_after(actor, seq0)
                     # ... and CPython's TaskGroup drops a cancellation that arrives while it is aborting (ground rule 5)
                     #     (it aborts when a child failed and also when it is left with the body's own exception)
                     or any(f.child_failed or (f.body_exc is not None and not isinstance(f.body_exc, asyncio.CancelledError))
                            for f in self.frames[nframes0:] if f.actor is actor))
        if expired and raised is None and not disturbed:
            if body_exc is None and actor.caught_cancels == caught0:
                sim.fail("timeout-cancel-lost", f"actor {actor.aid}: asyncio.timeout() expired inside the block (it cancelled the task) but the body "
                         f"ended normally: the cancellation was lost on its way through the library's blocks")
        if raised is not None and not disturbed and task.cancelling() != cancelling0:
            sim.fail("timeout-cancel-accounting", f"actor {actor.aid}: after asyncio.timeout() turned its cancellation into TimeoutError the task's "
                     f"cancelling() count is {task.cancelling()}, it was {cancelling0} before the block")
        # (the TimeoutError itself is ordinary user-level control flow: swallowed here, the program goes on)

    async def op_deep(self, actor, op):
        from contextlib import ExitStack
        from haiway import ctx
        sim = self.sim
        _k, n, ti, val = op
        other = (ti + 1) % 3  # T0/T1/T2 as filler types
        pushed = 0
        sim.stats["deep_chain_of_updates"] += 1
        sim.nontrivial = True
        try:
            with ExitStack() as stack:
                for i in range(n):
                    f = Frame("updated", self.next_uid())
                    st = make_state(ti, val) if i == 0 else make_state(other, 100000 + i)
                    f.states.setdefault(ti if i == 0 else other, []).append(st)
                    stack.enter_context(ctx.updated(st))
                    actor.stack.append(f)
                    pushed += 1
                self.probe(actor, 0)
                await sim.pause(f"a{actor.aid}")
                self.probe(actor, 1)
        except SimStop:
            raise
        except asyncio.CancelledError:
            raise
        except BaseException as exc:  # noqa: BLE001
            sim.fail("deep-chain", f"{n} nested ctx.updated blocks: {type(exc).__name__} {str(exc)[:80]}", error=type(exc).__name__)
        finally:
            del actor.stack[len(actor.stack) - pushed:]
        self.probe(actor, 0)

    def op_spawn(self, actor, op):
        from haiway import ctx
        sim = self.sim
        _k, via, spec, body = op
        child = Actor(len(self.actors), list(actor.stack), parent=actor)
        child.via = via
        child.held = spec["gate"] == 2
        self.actors.append(child)
        scope = self.innermost_async(actor.stack)
        eng = self

        async def child_main(tag):
            child.started = True
            sim.event("actor-start", child.aid)
            try:
                if eng.cfg["probe_each"]:
                    eng.probe(child, child.aid % 2)
                if spec["fail"] == 1:
                    sim.stats["fault:child_fail_early"] += 1
                    raise Injected(("child", child.aid))
                if spec["gate"]:
                    try:
                        forced = await sim.gate(f"g{child.aid}", held=spec["gate"] == 2)
                    except asyncio.CancelledError as cancelled:
                        if spec.get("cancel_as_group"):
                            sim.stats["fault:child_cancelled_ends_with_group"] += 1
                            raise BaseExceptionGroup("", [cancelled]) from None
                        raise
                    if forced:
                        child.gate_forced = True
                        child.gate_forced_seq = sim.seq
                await eng.run_ops(child, body)
                if spec["fail"] == 2:
                    sim.stats["fault:child_fail_late"] += 1
                    raise Injected(("child", child.aid))
                if spec["fail"] == 3:
                    # what `except* CancelledError: ...; raise` inside the child leaves behind: a group, not a cancellation
                    sim.stats["fault:child_fail_with_group_of_cancelled"] += 1
                    raise BaseExceptionGroup("cancelled inside", [asyncio.CancelledError(), Injected(("child", child.aid))][:1 + (child.aid % 2)])
            except SimStop:
                raise
            except BaseException as exc:
                child.end_exc = exc
                if not isinstance(exc, asyncio.CancelledError) and scope is not None and via == 0:
                    scope.child_failed = True
                    sim.event("child-failed", child.aid, scope.uid)
                raise
            finally:
                child.ended = True
                sim.event("actor-end", child.aid, type(child.end_exc).__name__ if child.end_exc is not None else "")

        if via == 0:
            try:
                child.task = ctx.spawn(child_main, child.aid)
            except SimStop:
                raise
            except RuntimeError as exc:
                # the inherited task group is gone (detached actor outliving its scope): not a defined situation
                sim.event("spawn-refused", child.aid, str(exc)[:40])
                child.ended = True
                return
            except BaseException as exc:  # noqa: BLE001
                if self.cfg["join"]:
                    sim.fail("spawn-raised", f"ctx.spawn raised {exc!r} ({'outside any async scope' if scope is None else 'inside scope #%d' % scope.uid})",
                             where="outside" if scope is None else "inside")
                raise
            if (getattr(sim, "eager", False) and scope is not None and scope.actor is actor and child.task.done()
                    and child.end_exc is not None and not isinstance(child.end_exc, asyncio.CancelledError)):
                # eager task factory: the child failed INSIDE create_task, so CPython's TaskGroup cancelled its parent - the task
                # that is running right now.  3.12.1 takes the request back with uncancel() but leaves the task's pending
                # cancellation armed: a CancelledError will surface at some later suspension point of this actor, whatever
                # the library does (ground rule 5: CPython's own behaviour is not judged)
                actor.stale_cancel = True
                sim.stats["exempt:eager_child_failure_leaves_cancel_armed"] += 1
            if scope is not None:
                scope.tasks.append(child)
                child.spawned_in = scope
            else:
                # outside any scope: a detached, running task
                if self.cfg["join"]:
                    sim.stats["spawn_outside_any_async_scope"] += 1
                    if child.task.done() and not getattr(sim, "eager", False):
                        # (under an eager task factory a task that never suspends is finished when create_task returns)
                        sim.fail("detached-spawn", "ctx.spawn outside any scope returned a finished task")
                    if self.owner_of(child.task) is not None and not actor.stack:
                        sim.fail("detached-spawn", "ctx.spawn outside any scope returned a task owned by a task group")
        else:
            child.task = sim.loop.create_task(child_main(child.aid))
        child.task.add_done_callback(self._retrieve)
        sim.event("spawn", actor.aid, child.aid, via)
        if len(self.actors) >= 2:
            sim.nontrivial = True

    def check_state_in_exit(self, double):
        from haiway import MissingContext, MissingState, ctx
        frame = next((f for f in self.frames if f.uid == double.scope_uid), None)
        if frame is None or not frame.entered:
            return
        for st in double.states:
            ti = self.fam["types"].index(type(st))
            try:
                got = ctx.state(type(st))
            except (MissingContext, MissingState) as exc:
                got = exc
            if not any(got is c for c in frame.states.get(ti, ())):
                self.sim.fail("state-in-cleanup", f"__aexit__ of disposable #{double.uid} (scope #{frame.uid}) asked for {self.fam['names'][ti]} and got "
                              f"{got!r}; while a scope is being left its cleanup code still runs inside it")

    async def exit_barrier(self, double):
        frame = next((f for f in self.frames if f.uid == double.scope_uid), None)
        mates = [d for d in frame.disposables if d.spec.get("exit_barrier")]
        st = self.barriers.setdefault(frame.uid, {"fut": self.sim.loop.create_future(), "started": 0})
        st["started"] += 1
        self.sim.stats["disposable_exit_rendezvous"] += 1
        if st["started"] >= len(mates) and not st["fut"].done():
            st["fut"].set_result(None)
        await asyncio.shield(st["fut"])

    def spawn_from_double(self, double, held, when="enter"):
        """A disposable's __aenter__ / __aexit__ spawns a background task into the scope that is being entered / left."""
        from haiway import ctx
        sim = self.sim
        frame = next((f for f in self.frames if f.uid == double.scope_uid), None)
        owner = frame.actor if frame is not None else self.actors[0]
        child = Actor(len(self.actors), list(owner.stack), parent=owner)
        child.via = 0
        child.held = held
        self.actors.append(child)

        async def background(tag):
            child.started = True
            sim.event("actor-start", child.aid)
            try:
                forced = await sim.gate(f"g{child.aid}", held=held)
                if forced:
                    child.gate_forced = True
                    child.gate_forced_seq = sim.seq
            except BaseException as exc:
                child.end_exc = exc
                raise
            finally:
                child.ended = True
                sim.event("actor-end", child.aid, type(child.end_exc).__name__ if child.end_exc is not None else "")

        try:
            child.task = ctx.spawn(background, child.aid)
        except SimStop:
            raise
        except BaseException as exc:  # noqa: BLE001
            sim.event("spawn-refused", child.aid, str(exc)[:40])
            child.ended = True
            return
        child.task.add_done_callback(self._retrieve)
        if frame is not None and frame.is_async:
            frame.tasks.append(child)
            child.spawned_in = frame
        sim.stats[f"disposable_spawned_in_{when}"] += 1
        sim.event("spawn", owner.aid, child.aid, 0)
        sim.nontrivial = True

    @staticmethod
    def _retrieve(t):
        if not t.cancelled():
            t.exception()

    def op_record(self, actor, op):
        from haiway import ctx
        sim = self.sim
        _k, mi, val, merge = op
        M0, M1 = self.fam["metrics"]
        M0S = self.fam["metric_sub"]
        key = (mi, val)
        metric = self.metric_objs.get(key)
        if metric is None:
            metric = self.metric_objs[key] = M1(items=(val,)) if mi == 1 else (M0, M1, M0S)[mi](v=val)
        else:
            sim.stats["same_metric_instance_recorded_again"] += 1
        scope = self.innermost_scope(actor.stack)

        def m_replace(lhs, rhs):
            return rhs

        def m_sum(lhs, rhs):
            return M1(items=(*lhs.items, *rhs.items)) if mi == 1 else type(rhs)(v=lhs.v + rhs.v)

        def m_concat(lhs, rhs):
            return M1(items=(*lhs.items, *rhs.items)) if mi == 1 else type(rhs)(v=lhs.v * 10 + rhs.v)

        def m_raise(lhs, rhs):
            sim.stats["fault:merge_raises"] += 1
            raise Injected(("merge", val))

        fn = (m_replace, m_sum, m_concat, m_raise)[merge]
        completed = scope is not None and self.completed_state(scope) != "no"
        seq = sim.event("record", actor.aid, scope.uid if scope else 0, mi, val, merge)
        if scope is not None:
            scope.records.append((seq, mi, val, merge, completed))
            if completed:
                sim.stats["record_after_completion"] += 1
        else:
            sim.stats["record_outside_scope"] += 1
        try:
            if merge == 0 and val % 2:
                ctx.record(metric)
            else:
                ctx.record(metric, merge=fn)
        except SimStop:
            raise
        except BaseException as exc:  # noqa: BLE001
            sim.fail("record-raised", f"ctx.record raised {exc!r} into user code (scope={'#%d' % scope.uid if scope else 'none'}, "
                     f"completed={completed}, merge={merge})", where="outside" if scope is None else ("completed" if completed else "inside"))

    def op_log(self, actor, op):
        from haiway import ctx
        sim = self.sim
        _k, level, fmt, exc_kind = op
        self.logn += 1
        marker = f"hv#{self.logn}#"
        fmts = (("plain " + marker, ()), ("one %s " + marker, ("arg",)), ("two %s %d " + marker, ("x", 7)),
                ("pct 100%% %s " + marker, ("y",)), ("map %(k)s %(n)d " + marker, ({"k": "v", "n": 3},)),
                ("star %*d " + marker, (4, 2)))
        text, args = fmts[fmt % 6]
        if fmt >= 6:
            class Message:  # a non-str message (an exception, a lazily rendered object): logging accepts any object
                def __init__(self, rendered):
                    self.rendered = rendered

                def __str__(self):
                    return self.rendered
            text, args = Message("object " + marker), ()
        if not args:
            user = str(text)
        elif len(args) == 1 and isinstance(args[0], dict):
            user = text % args[0]
        else:
            user = text % args
        scope = self.innermost_scope(actor.stack)
        exc = None
        if exc_kind == 1 and level != 2:
            exc = Injected(("logged", self.logn))
        elif exc_kind == 3 and level == 0:
            exc = InjectedBase(("logged", self.logn))  # log_error accepts any BaseException
        n0 = len(self.cap.records)
        try:
            if level == 0:
                ctx.log_error(text, *args, exception=exc)
                lvl = logging.ERROR
            elif level == 1:
                ctx.log_warning(text, *args, exception=exc)
                lvl = logging.WARNING
            elif level == 2:
                ctx.log_info(text, *args)
                lvl = logging.INFO
            else:
                ctx.log_debug(text, *args, exception=exc)
                lvl = logging.DEBUG
        except SimStop:
            raise
        except BaseException as e:  # noqa: BLE001
            sim.fail("log-raised", f"ctx.log_* raised {e!r}")
        sim.event("log", actor.aid, scope.uid if scope else 0, level, fmt)
        got = [r for r in self.cap.records[n0:] if marker in r[2]]
        if lvl < self.root_level:
            if got:
                sim.fail("log-level", f"a level {lvl} message was emitted although the logger level is {self.root_level}")
            return
        self.judge_log(actor, scope, got, lvl, user, marker, bool(args))
        if exc is not None and got:
            ei = got[0][4]
            if not ei or ei[1] is not exc:
                sim.fail("log-exception", f"log call was given exception {exc!r} but the record carries exc_info={ei!r}",
                         scoped=int(scope is not None))

    def effective_logger(self, scope):
        f = scope
        while f is not None:
            if f.logger is not None:
                return f.logger.name
            if f.parent_scope is None:
                return f.name if f.name else "root"
            f = f.parent_scope
        return "root"

    def effective_trace(self, scope):
        f = scope
        while f is not None:
            if f.trace is not None:
                return f.trace
            f = f.parent_scope
        return None

    def judge_log(self, actor, scope, got, lvl, user, marker, has_args):
        sim = self.sim
        name = NAMES[scope.spec["name"]] if scope is not None else None
        feat = "pct-in-name" if (scope is not None and "%" in name) else "plain-name"
        if len(got) != 1:
            lost = [r for r in self.cap.records if marker in r[2]]
            sim.fail("log-count", f"one ctx.log call produced {len(got)} renderable records (scope name {name!r}, args={has_args}): {lost[:2]}",
                     n=len(got), name=feat, args=int(has_args))
        rname, rlvl, text, ok, _ei = got[0]
        if not ok:
            sim.fail("log-lost", f"log line could not be rendered: {text} (scope name {name!r})", name=feat, args=int(has_args))
        if rlvl != lvl:
            sim.fail("log-level", f"logged at level {rlvl}, requested {lvl}")
        if scope is None:
            if rname != "root":
                sim.fail("log-logger", f"message outside any scope went to logger {rname!r}, expected root")
            if text != user:
                sim.fail("log-untagged", f"message outside any scope rendered as {text!r}, expected {user!r}")
            return
        want_logger = self.effective_logger(scope)
        if rname != want_logger:
            sim.fail("log-logger", f"scope #{scope.uid} ({name!r}) logged to {rname!r}, expected {want_logger!r}",
                     own=int(scope.logger is not None))
        if user not in text:
            sim.fail("log-message", f"rendered {text!r} does not contain the user message {user!r}", name=feat)
        if name and name not in text:
            sim.fail("log-name", f"rendered {text!r} does not contain the scope name {name!r}")
        want_trace = self.effective_trace(scope)
        prefix = text[:text.index(user)]
        root = scope.root
        if want_trace is not None:
            if want_trace not in prefix:
                sim.fail("log-trace", f"scope #{scope.uid} log prefix {prefix!r} lacks the expected trace id {want_trace!r}",
                         own=int(scope.trace is not None), nested=int(scope.parent_scope is not None))
        else:
            # a fresh id shared by the whole subtree of that root and by no other root
            tid = prefix.split("]")[0].lstrip("[") if prefix.startswith("[") else ""
            if not tid:
                sim.fail("log-trace", f"log prefix {prefix!r} carries no trace id")
            known = self.roots.get(root.uid)
            if known is None:
                for other_uid, other in self.roots.items():
                    if other == tid:
                        sim.fail("log-trace-shared", f"two outermost scopes share the fresh trace id {tid}")
                self.roots[root.uid] = tid
            elif known != tid:
                sim.fail("log-trace", f"scope #{scope.uid} under root #{root.uid} logged with trace id {tid}, the root's fresh id is {known}",
                         own=0, nested=1)
        # the scope's own identifier (last bracket group of the prefix) is unique among all scopes of the run
        ident = prefix.rstrip().rsplit("[", 1)[-1].rstrip("] ") if "[" in prefix else ""
        if ident:
            owner_uid = self.scope_idents.setdefault(ident, scope.uid)
            if owner_uid != scope.uid:
                sim.fail("log-identifier-shared", f"scopes #{owner_uid} and #{scope.uid} log with the same 'unique' identifier {ident}")
        scope_ident = getattr(scope, "eff_logger", None)
        if scope.metrics_obj is not None and scope.metrics_obj.identifier not in prefix:
            sim.fail("log-identifier", f"prefix {prefix!r} lacks the scope identifier {scope.metrics_obj.identifier}")
        if scope.metrics_obj is None:
            self.log_expect.append((scope, prefix))

    def op_cancel_self(self, actor):
        from haiway import ctx
        sim = self.sim
        actor.harness_cancel = True
        actor.pending_cancel = True
        sim.stats["fault:ctx_cancel"] += 1
        actor.cancel_self_seq = sim.event("ctx-cancel", actor.aid)
        ctx.cancel()
        sim.nontrivial = True

    def op_check_cancel(self, actor, where="op"):
        from haiway import ctx
        sim = self.sim
        task = asyncio.current_task()
        log = getattr(task, "cancel_log", [])
        any_cancel = any(e[0] == "cancel" for e in log)
        raised = False
        try:
            ctx.check_cancellation()
        except asyncio.CancelledError:
            raised = True
        sim.event("check-cancel", actor.aid, raised)
        if not self.cfg["cancel_rules"]:
            return
        if actor.harness_cancel and not raised:
            sim.fail("check-cancellation-silent", f"actor {actor.aid} was asked to cancel ({where}) but ctx.check_cancellation() "
                     f"did not raise", how="ctx.cancel" if where == "op" else where)
        if raised and not any_cancel:
            sim.fail("check-cancellation-spurious", f"ctx.check_cancellation() raised although nobody cancelled actor {actor.aid}")
        if raised:
            sim.stats["check_cancellation_raised"] += 1
            raise asyncio.CancelledError()

    def op_check_cancel_thread(self, actor):
        """ctx.check_cancellation() called from a worker thread in a copy of the actor's context (what a blocking function run
        through an executor does).  No task runs in that thread, so nobody can have asked 'the current task' to cancel."""
        import contextvars
        import threading
        from haiway import ctx
        sim = self.sim
        out = {}

        def probe():
            try:
                ctx.check_cancellation()
                out["raised"] = None
            except BaseException as exc:  # noqa: BLE001
                out["raised"] = exc

        snapshot = contextvars.copy_context()
        th = threading.Thread(target=snapshot.run, args=(probe,))
        th.start()
        th.join()  # (joined at once: the thread is not a scheduling dimension here)
        sim.stats["check_cancellation_in_worker_thread"] += 1
        sim.event("check-cancel-thread", actor.aid, type(out.get("raised")).__name__)
        if self.cfg["cancel_rules"] and out.get("raised") is not None:
            sim.fail("check-cancellation-spurious", f"ctx.check_cancellation() called in a worker thread (no task there) raised {out['raised']!r}",
                     where="worker-thread")

    async def op_try(self, actor, op):
        sim = self.sim
        _k, body, swallow, cleanup = op[:4]
        catches = op[4] if len(op) > 4 else 0
        try:
            await self.run_ops(actor, body)
        except SimStop:
            raise
        except asyncio.CancelledError:
            sim.event("try-caught", actor.aid, "CancelledError")
            consumed = False
            if catches and actor.pending_cancel:
                # user code catches the cancellation (without uncancel()): this request is consumed, a later one is not
                actor.pending_cancel = False
                actor.caught_cancels += 1
                if actor.cancel_landed is not None:
                    actor.exempt_cancel = True  # the external request was consumed by user code
                sim.stats["cancellation_caught_by_user_code"] += 1
                consumed = True
            if cleanup:
                sim.stats["cleanup_spawn_after_cancel"] += 1
                await self.run_ops(actor, cleanup)  # (may ask for a NEW cancellation: ctx.cancel() inside the handler)
            if self.cfg["cancel_rules"] and actor.harness_cancel and actor.cancel_landed:
                # user code that catches the cancellation asks the context: it must report it
                from haiway import ctx
                try:
                    ctx.check_cancellation()
                except asyncio.CancelledError:
                    sim.stats["check_cancellation_raised"] += 1
                else:
                    sim.fail("check-cancellation-silent", f"actor {actor.aid} was cancelled through asyncio and caught "
                             f"CancelledError, but ctx.check_cancellation() did not raise", how="task.cancel")
            if consumed:
                return
            raise
        except BaseException as exc:  # noqa: BLE001
            sim.event("try-caught", actor.aid, type(exc).__name__)
            cleanup = [o for o in cleanup if o[0] != "cancel_self"]  # (asking for a new cancellation belongs to the cancel handler only)
            if cleanup:
                sim.stats["cleanup_spawn_after_error"] += 1
                await self.run_ops(actor, cleanup)
            if not swallow:
                raise

    # -- running ------------------------------------------------------------------------------
    def run(self, program):
        sim = self.sim
        cfg = self.cfg
        main_actor = Actor(0, [])
        self.actors.append(main_actor)
        eng = self
        Engine.all_frames = []

        async def actor0():
            main_actor.started = True
            try:
                await eng.run_ops(main_actor, program)
            except SimStop:
                raise
            except BaseException as exc:
                main_actor.end_exc = exc
                raise
            finally:
                main_actor.ended = True
                sim.event("actor-end", 0, type(main_actor.end_exc).__name__ if main_actor.end_exc is not None else "")

        async def main():
            t = sim.loop.create_task(actor0())
            main_actor.task = t
            t.add_done_callback(eng._retrieve)
            if cfg["cancel_mode"] == "sweep" and sim.inject_choice:
                sim.inject(sim.inject_choice, "cancel", eng.inject_cancel)
            elif cfg["cancel_mode"] == "random":
                k = 1 + sim.source.draw(40, "cancel-at")
                sim.inject(k, "cancel", eng.inject_cancel)
            await asyncio.wait([t])

        self.victim_choice = sim.source.draw(4, "victim") if cfg["cancel_mode"] else 0
        if cfg["cancel_rules"]:
            def check_outside_task():
                # called by the loop itself (a callback, no current task): nobody was asked to cancel -> must not raise
                from haiway import ctx
                try:
                    ctx.check_cancellation()
                except BaseException as exc:  # noqa: BLE001
                    sim.fail_post("check-cancellation-spurious", f"ctx.check_cancellation() raised {exc!r} when called outside any task",
                                  where="no-task")
            sim.loop.call_soon(check_outside_task)
        if cfg["tick"]:
            # swarm knob: in half of the runs every external completion advances the virtual clock by one grid step
            sim.tick = sim.source.draw(2, "tick")
        return sim.run(main)

    def inject_cancel(self):
        sim = self.sim
        live = [a for a in self.actors if a.task is not None and not a.task.done()]
        if not live:
            return
        victim = live[self.victim_choice % len(live)] if self.cfg["cancel_rules"] is False else live[0]
        if self.cfg["cancel_rules"]:
            victim = live[self.victim_choice % len(live)]
        ret = victim.task.cancel()
        sim.event("cancel-actor", victim.aid, ret)
        if not ret:
            return
        sim.nontrivial = True
        victim.harness_cancel = True
        victim.pending_cancel = True
        victim.cancel_landed = sim.seq
        # classify the landing point from the victim's open scopes
        open_scopes = [f for f in self.frames if not f.exit_returned and self.actor_of(f) is victim]
        inner_async = None
        for f in reversed(open_scopes):
            if f.is_async:
                inner_async = f
                break
        if not victim.started:
            where = "before-start"
        elif inner_async is None:
            where = "outside-async-scope"
        elif not inner_async.body_started:
            where = "in-enter"
        elif not inner_async.body_ended:
            where = "in-body"
        else:
            waiting_disp = any(d.exit_calls and not d.exit_finished for d in inner_async.disposables)
            where = "in-exit-disposables" if waiting_disp else "in-exit-wait"
        sim.stats[f"landing:{where}"] += 1
        sim.stats["fault:external_cancel"] += 1
        aborting = False
        if inner_async is not None:
            if inner_async.child_failed:
                aborting = True
            if inner_async.body_ended and inner_async.body_exc is not None and where != "in-exit-disposables":
                aborting = True  # (the group only starts aborting when IT is left: while the disposables exit it is still intact)
            if any(d.exit_exc is not None for d in inner_async.disposables):
                aborting = True  # disposing already failed: the group is told about that error and aborts
            if inner_async.tasks and any(d.enter_exc is not None for d in inner_async.disposables):
                aborting = True  # entering failed after tasks were spawned: the roll-back leaves the group with that error
        self.cancel_info = {"victim": victim, "where": where, "aborting": aborting, "scope": inner_async,
                            "open_scopes": open_scopes,
                            "pending_children": [c for f in open_scopes for c in f.tasks if c.task is not None and not c.task.done()]}

    def actor_of(self, f):
        return f.actor


    # -- history oracles at quiescence ----------------------------------------------------------
    def finish(self, outcome):
        sim = self.sim
        cfg = self.cfg
        if sim.violation is not None or sim.harness_errors:
            return
        if outcome == "deadlock":
            pend = [a.aid for a in self.actors if a.task is not None and not a.task.done()]
            open_scopes = [f.uid for f in self.frames if f.entered and not f.exit_returned]
            if cfg["join"] or cfg["cancel_rules"] or cfg["restore"] or cfg["disp_rules"]:
                sim.fail_post("hang", f"leaving a scope never terminated: actors {pend} pending, scopes {open_scopes} not left, "
                              f"all gates released")
            else:
                sim.harness_error(f"deadlock in profile without termination claim: actors {pend}")
            return
        if outcome != "ok":
            return
        if sim.main.exception() is not None:
            sim.harness_error(f"main failed: {sim.main.exception()!r}")
            return
        # harness-code failures inside actors are HARNESS, library failures are judged per property
        for a in self.actors:
            exc = a.end_exc
            if exc is None or isinstance(exc, (Injected, InjectedBase, GeneratorExit, asyncio.CancelledError,
                                               BaseExceptionGroup)):
                continue
            origin = self.origin(exc)
            if origin == "harness":
                sim.harness_error(f"actor {a.aid} failed in harness code: {exc!r}")
                return
            sim.stats["library_exception_seen"] += 1
            if cfg["restore"]:
                sim.fail_post("spurious-exception", f"actor {a.aid} ended with library exception {exc!r}", path="library")
                return
            # none of the generated programs asks the library for anything it may refuse: an exception that comes out of library
            # code and ends a task is a failure under every property of the scope family
            sim.fail_post("library-exception", f"actor {a.aid} ended with {type(exc).__name__} raised inside the library: {str(exc)[:120]}",
                          error=type(exc).__name__)
            return
        if cfg["join"]:
            for a in self.actors:
                if a.task is not None and not a.task.done():
                    sim.fail_post("hang", f"actor {a.aid} still pending at quiescence")
                    return
                if a.task is not None and a.via == 0 and a.spawned_in is None and not a.started and a.cancel_landed is None:
                    sim.fail_post("detached-spawn", f"actor {a.aid} was spawned outside any scope but its task never ran "
                                  f"(cancelled={a.task.cancelled()})")
                    return
        if cfg["cancel_rules"]:
            self.finish_cancel()
        if cfg["disp_rules"] and sim.violation is None:
            self.finish_disposables()
        if cfg["completion_rules"] and sim.violation is None:
            self.finish_completion()
        if cfg["metrics_rules"] and sim.violation is None:
            self.finish_metrics()
        if cfg["log_rules"] and sim.violation is None:
            for scope, prefix in self.log_expect:
                if scope.metrics_obj is not None and scope.metrics_obj.identifier not in prefix:
                    sim.fail_post("log-identifier", f"prefix {prefix!r} lacks the scope identifier {scope.metrics_obj.identifier}")
                    return

    @staticmethod
    def origin(exc):
        import os
        from sim import seams
        tb = exc.__traceback__
        last = None
        while tb is not None:
            last = tb.tb_frame.f_code.co_filename
            tb = tb.tb_next
        if last and os.path.realpath(last).startswith(os.path.realpath(seams.haiway_src())):
            return "library"
        return "harness"

    def double_raised_after(self, actor, seq):
        """Did a disposable double of one of the actor's scopes raise after event `seq` (a user cleanup error that may
        legitimately replace a propagating cancellation)?"""
        for f in self.frames:
            if f.actor is actor:
                for d in f.disposables:
                    if d.raised_seq is not None and d.raised_seq > seq:
                        return True
        return False

    @staticmethod
    def raised_after(a, req_seq):
        """The actor's own code raised (a `raise` op) AFTER the cancellation had been requested and before it could be
        delivered: the task may legitimately end with that exception (if the way out happens not to suspend)."""
        e = a.end_exc
        tag = e.args[0] if isinstance(e, (Injected, InjectedBase, GeneratorExit)) and e.args else None
        return (isinstance(tag, tuple) and len(tag) == 3 and tag[0] == "raise"
                and req_seq is not None and tag[2] >= req_seq)

    def finish_cancel(self):
        sim = self.sim
        info = self.cancel_info
        # every cancellation request that user code did not catch must end the task cancelled (ctx.cancel included)
        for a in self.actors:
            if a.pending_cancel and a.task is not None and a.task.done() and not a.task.cancelled() and a.started \
                    and not (info is not None and info["victim"] is a):
                if any(f.child_failed for f in self.frames if f.actor is a):
                    continue  # TaskGroup was aborting at some point: CPython may have dropped the request (ground rule 5)
                if only_injected(a.end_exc) and self.double_raised_after(a, 0):
                    sim.stats["exempt:cancellation_replaced_by_user_cleanup_error"] += 1
                    continue  # user-supplied code (a double) raised while the cancellation was propagating
                if self.raised_after(a, a.cancel_self_seq):
                    sim.stats["exempt:user_code_raised_before_the_cancellation_was_delivered"] += 1
                    continue
                sim.fail_post("cancel-swallowed", f"actor {a.aid} asked for its own cancellation (ctx.cancel, {a.caught_cancels} earlier "
                              f"request(s) caught by user code) and never caught this one, but its task ended "
                              f"{'with ' + repr(a.task.exception()) if a.task.exception() else 'normally'}",
                              where="ctx.cancel-after-caught" if a.caught_cancels else "ctx.cancel")
                return
        if info is None:
            return
        victim = info["victim"]
        if not info["aborting"] and any(f.child_failed for f in info["open_scopes"]):
            # a child failed before the victim could process the cancel: the group was aborting by then
            info["aborting"] = True
        if info["aborting"]:
            sim.stats["exempt:cancel_while_group_aborting"] += 1
            victim.exempt_cancel = True
        elif not victim.task.cancelled() and victim.pending_cancel and only_injected(victim.end_exc) \
                and self.double_raised_after(victim, victim.cancel_landed):
            sim.stats["exempt:cancellation_replaced_by_user_cleanup_error"] += 1
        elif not victim.task.cancelled() and victim.pending_cancel and self.raised_after(victim, victim.cancel_landed):
            sim.stats["exempt:user_code_raised_before_the_cancellation_was_delivered"] += 1
        elif not victim.task.cancelled() and victim.pending_cancel:
            sim.fail_post("cancel-swallowed", f"actor {victim.aid} was cancelled ({info['where']}) and never caught it, but its task "
                          f"ended {'with ' + repr(victim.task.exception()) if victim.task.exception() else 'normally'}",
                          where=info["where"])
            return
        for c in info["pending_children"]:
            if not victim.task.cancelled() or victim.exempt_cancel:
                break  # user code caught the cancellation (or it was replaced): the scope went on normally
            forced_after = c.gate_forced and c.gate_forced_seq > victim.cancel_landed
            if c.held and (forced_after or not c.task.cancelled()) and not c.gate_forced_before(victim.cancel_landed) \
                    and not info["aborting"]:
                sim.fail_post("child-not-cancelled", f"actor {victim.aid} was cancelled ({info['where']}) but blocked child actor "
                              f"{c.aid} of its scope was not cancelled (gate forced: {c.gate_forced})", where=info["where"])
                return

    def finish_disposables(self):
        sim = self.sim
        for f in self.frames:
            if not f.disposables:
                continue
            any_enter_failed = any(d.enter_exc is not None for d in f.disposables)
            for d in f.disposables:
                if d.enter_calls > 1:
                    sim.fail_post("entered-twice", f"disposable #{d.uid} entered {d.enter_calls} times")
                    return
                if f.body_started:
                    if d.enter_calls != 1 or not d.enter_done:
                        sim.fail_post("body-before-enter", f"body of scope #{f.uid} started but disposable #{d.uid} had not been entered")
                        return
                if len(d.exit_calls) > 1:
                    sim.fail_post("exited-twice", f"disposable #{d.uid} exited {len(d.exit_calls)} times")
                    return
                if d.exit_calls and (d.enter_calls == 0 or d.enter_exc is not None):
                    sim.fail_post("exited-without-enter", f"disposable #{d.uid} of scope #{f.uid} received __aexit__ although its "
                                  f"__aenter__ {'was never called' if d.enter_calls == 0 else 'had failed'}")
                    return
                if d.enter_done and len(d.exit_calls) != 1:
                    how = "enter-failed" if any_enter_failed else ("cancelled-in-enter" if not f.body_started else
                                                                   ("body-raised" if f.body_exc is not None else "body-returned"))
                    sim.fail_post("never-exited", f"disposable #{d.uid} of scope #{f.uid} was entered but never exited ({how})", how=how)
                    return
                if f.body_started and d.exit_calls:
                    et, ev, seq = d.exit_calls[0]
                    if seq < f.body_end_seq:
                        sim.fail_post("exit-before-body-end", f"disposable #{d.uid} exited before the body of scope #{f.uid} ended")
                        return
                    want = (type(f.body_exc), f.body_exc) if f.body_exc is not None else (None, None)
                    if et is not want[0] or ev is not want[1]:
                        sim.fail_post("exit-arguments", f"disposable #{d.uid} __aexit__ received ({et}, {ev!r}), body ended with "
                                      f"{describe_exc(f.body_exc) if f.body_exc is not None else 'no exception'}")
                        return

    def descendants(self, f, out, states=("no",)):
        for c in f.children:
            if c.parent_completed_at_registration in states and c.entered:
                out.append(c)
                self.descendants(c, out, states)
        return out

    def finish_completion(self):
        sim = self.sim
        # let the clock advance so that a 'time' that still moves is visible
        sim.loop._now += 64 * GRID
        for f in self.frames:
            if not f.callback:
                continue
            if f.completion_count > 1:
                sim.fail_post("completion-twice", f"completion of scope #{f.uid} invoked {f.completion_count} times")
                return
            desc = self.descendants(f, [])
            if f.completion_seq is not None:
                mine = [f] if f.entered else []
                late = [d.uid for d in [*mine, *desc] if d.body_end_seq is None or d.body_end_seq > f.completion_seq]
                late = [u for u in late if any(d.uid == u and d.registered_seq < f.completion_seq for d in [f, *desc])]
                if late:
                    sim.fail_post("completion-early", f"completion of scope #{f.uid} fired (seq {f.completion_seq}) before nested "
                                  f"scopes {late} were left")
                    return
                obs = f.completion_obs or {}
                if "error" in obs:
                    sim.fail_post("completion-observe", f"reading metrics in the completion callback raised {obs['error']!r}")
                    return
                if obs.get("is_completed") is not True:
                    sim.fail_post("not-completed-in-callback", f"scope #{f.uid}: is_completed is {obs.get('is_completed')} inside its completion callback")
                    return
                m = f.metrics_obj
                if m.is_completed is not True:
                    sim.fail_post("completed-flipped", f"scope #{f.uid} reported completion but is_completed is False at quiescence "
                                  f"(children created after completion: {[c.uid for c in f.children if c.parent_completed_at_registration == 'yes']})")
                    return
                if abs(m.time - obs["time"]) > EPS:
                    sim.fail_post("time-moved", f"scope #{f.uid}: time was {obs['time']} in the callback and {m.time} later")
                    return
            else:
                wide = self.descendants(f, [], ("no", "maybe"))

                def has_unentered(g):
                    # a scope object that was created (and so registered) under g but whose entering was never even attempted was
                    # never left either (an attempted entry that failed does count as left)
                    return any((not c.entered and not c.exit_returned and c.parent_completed_at_registration != "yes")
                               or ((c.entered or c.exit_returned) and has_unentered(c))
                               for c in g.children)

                if f.entered and f.exit_returned and all(d.exit_returned for d in wide) and not has_unentered(f):
                    sim.fail_post("completion-never", f"scope #{f.uid} and its nested scopes {[d.uid for d in wide]} were all left "
                                  f"but its completion callback never fired",
                                  late_children=int(any(c.parent_completed_at_registration == "yes" for c in f.children)))
                    return

    def finish_metrics(self):
        from haiway import MISSING
        sim = self.sim
        M0, M1 = self.fam["metrics"]
        MT = (M0, M1, self.fam["metric_sub"])
        MI = (0, 1, 2)

        def apply(cur, mi, val, merge):
            new = M1(items=(val,)) if mi == 1 else MT[mi](v=val)
            if cur is None:
                return [new]
            if merge == 0:
                return [new]
            if merge == 1:
                return [M1(items=(*cur.items, val)) if mi == 1 else MT[mi](v=cur.v + val)]
            if merge == 2:
                return [M1(items=(*cur.items, val)) if mi == 1 else MT[mi](v=cur.v * 10 + val)]
            return [cur, new]  # raising merge: unchanged or replaced are both admissible

        ref = {}
        for f in self.frames:
            vals = {0: {"None": None}, 1: {"None": None}, 2: {"None": None}}
            for (_seq, mi, val, merge, completed) in f.records:
                nxt = {}
                for cur in vals[mi].values():
                    for r in apply(cur, mi, val, merge):
                        nxt[repr(r)] = r
                    if completed:
                        nxt[repr(cur)] = cur  # recorded after completion: applied or rejected
                vals[mi] = nxt
            ref[f.uid] = vals
        for f in self.frames:
            m = f.metrics_obj
            if m is None:
                continue
            for mi, M in enumerate(MT):
                got = m.read(M)
                if repr(got) not in ref[f.uid][mi]:
                    sim.fail_post("metric-value", f"scope #{f.uid}: read({M.__name__}) = {got!r}, reference fold of its records "
                                  f"{[r[:4] for r in f.records if r[1] == mi]} admits {sorted(ref[f.uid][mi])}",
                                  foreign=int(not any(r[1] == mi for r in f.records) and got is not None))
                    return
        # merged views (only where the reference is unambiguous)
        def single(f):
            return all(len(ref[f.uid][mi]) == 1 for mi in MI) and all(
                single(c) for c in f.children) and not any(c.parent_completed_at_registration != "no" for c in f.children)

        def merged(f, fn):
            cur = {mi: next(iter(ref[f.uid][mi].values())) for mi in MI}
            for c in f.children:
                if not c.entered and False:
                    continue
                sub = merged(c, fn)
                for mi in MI:
                    if sub[mi] is not None:
                        r = fn(cur[mi] if cur[mi] is not None else MISSING, sub[mi])
                        if r is not MISSING:
                            cur[mi] = r
            return cur

        def make_merge(mode):
            # both merge callables come from ONE factory: same code object, different behaviour
            def merge(cur, new):
                if mode == "skip-m1" and isinstance(new, M1):
                    return MISSING  # "nothing to merge for this type": the documented way to leave a value alone
                if cur is MISSING:
                    return new
                if mode == "first":
                    return cur
                if isinstance(new, M0):
                    return type(new)(v=cur.v + new.v)
                return M1(items=(*cur.items, *new.items))
            return merge

        m_sum, m_first, m_skip = make_merge("sum"), make_merge("first"), make_merge("skip-m1")

        for f in self.frames:
            m = f.metrics_obj
            if m is None or not single(f):
                continue
            for label, fn in (("sum", m_sum), ("first", m_first), ("skip-m1", m_skip)):
                want = merged(f, fn)
                got = {type(x): x for x in m.metrics(merge=fn)}
                for mi, M in enumerate(MT):
                    if got.get(M) != want[mi]:
                        sim.fail_post("merged-view", f"scope #{f.uid}: metrics(merge={label}) gives {got.get(M)!r} for {M.__name__}, "
                                      f"depth-first fold in creation order gives {want[mi]!r}", merge=label)
                        return
            if f.children:
                sim.stats["merged_views_checked"] += 1


class ScopeProp(Prop):
    level = "exploration"
    sweep_profiles = ()
    components = {
        "real": ["haiway.context (access, state, metrics, tasks, disposables - unmodified)", "asyncio.TaskGroup / Task / gather (CPython)",
                 "contextvars", "logging"],
        "stub": ["event loop (SimLoop)", "time.monotonic / uuid4 seams", "disposables, completion callbacks, merge functions, "
                 "log handler are harness doubles"],
    }

    def sim_options(self, profile):
        return {"max_boundaries": 6000}

    def expand(self, seed, profile, run, sample):
        from sim.source import Source
        if profile.removesuffix("-deep") in self.sweep_profiles:
            return sweep_expand(self, seed, profile, run, sample, max_k=250)
        return run(Source(seed), sample)

    def execute(self, sim, profile):
        cfg = cfg_for(self.id, profile)
        gen = Gen(sim, cfg)
        program = gen.program()
        sim.program = {"profile": profile, "ops": program,
                       "cancel_at_iteration": sim.inject_choice if cfg["cancel_mode"] == "sweep" else 0}
        eng = Engine(sim, cfg, self.id, profile)
        outcome = eng.run(program)
        eng.finish(outcome)
        if cfg["lookup"] and gen.blocks >= 2:
            sim.nontrivial = True
        Engine.all_frames = []


EAGER_PROFILES = {
    "C02": [("plain", 30000), ("disp", 20000), ("cancel", 12000)],
    "C03": [("plain", 15000)],
    "C06": [("plain", 30000), ("disp", 10000), ("cancel", 12000)],
    "C07": [("plain", 30000), ("cancel", 20000)],
    "C08": [("faults", 30000)],
    "C09": [("plain", 40000), ("faults", 20000)],
    "C10": [("plain", 40000)],
    "C19": [("plain", 40000)],
}


def _mk(pid, level, tiers, rule, sweeps=()):
    tiers = with_eager(tiers, EAGER_PROFILES.get(pid, []))
    cls = type(pid, (ScopeProp,), {"id": pid, "level": level, "tiers": tiers, "rule_text": rule,
                                   "sweep_profiles": tuple(sweeps),
                                   # programs with explicit gc events: garbage of earlier runs must not be finalised inside them
                                   "gc_before": pid in ("C09", "C10")})
    return cls()


PROPS = {
    "C01": _mk("C01", "exploration", {"quick": [("plain", 180000)], "thorough": [("plain", 3600000), ("plain-deep", 720000)]},
               "one case = generated tree of nested ctx.scope (sync/async, with state-yielding disposables) / ctx.updated blocks over a "
               "family of 5 state types (defaultable, required attribute, subclass, two specialisations of a generic) with probes "
               "(ctx.state with and without explicit default, in both orders) before/inside/between/after + completion order of "
               "concurrently entered disposables; scope and update objects may be created before the enclosing block is entered "
               "(hoisted) and entered inside it; distinct = event-log digest incl. program; non-trivial = at least two blocks"),
    "C02": _mk("C02", "fault_enumeration",
               {"quick": [("plain", 90000), ("disp", 60000), ("sweep", 3000), ("disp-sweep", 2400), ("cancel", 36000)],
                "thorough": [("plain", 1800000), ("disp", 1200000), ("sweep", 60000), ("disp-sweep", 48000), ("cancel", 720000), ("plain-deep", 360000), ("disp-deep", 240000), ("sweep-deep", 12000), ("disp-sweep-deep", 9600), ("cancel-deep", 144000)]},
               "C01 programs + faults: body raise (Exception/BaseException), failing spawned tasks, disposable enter/exit failures, "
               "external cancel at a random loop iteration or swept over EVERY iteration of the fault-free twin; around every block "
               "the state answers, probe-log scope prefix and owning task group are compared before/after; scopes may carry completion "
               "callbacks that raise or use the library themselves; non-trivial = at least one fault fired or two blocks nested",
               sweeps=("sweep", "disp-sweep")),
    "C03": _mk("C03", "exploration", {"quick": [("plain", 55000)], "thorough": [("plain", 1800000), ("plain-deep", 360000)]},
               "2..4 actors (ctx.spawn / loop.create_task) each running its own nesting of scopes/updates with a pause between any "
               "two ops; every actor probes after every op against its own shadow stack; non-trivial = at least two actors"),
    "C06": _mk("C06", "fault_enumeration",
               {"quick": [("plain", 100000), ("cancel", 40000), ("sweep", 3000), ("disp", 30000)],
                "thorough": [("plain", 2000000), ("cancel", 800000), ("sweep", 60000), ("disp", 600000), ("plain-deep", 480000), ("cancel-deep", 192000), ("sweep-deep", 12000), ("disp-deep", 120000)]},
               "programs with up to 4 spawned tasks (nested spawns, failing, plain/held gates), body return/raise/cancel; at the instant "
               "`async with` returns every attributed task must be done (incl. tasks started by disposables while entering or exiting); "
               "deadlock detector; non-trivial = at least two actors",
               sweeps=("sweep",)),
    "C07": _mk("C07", "fault_enumeration",
               {"quick": [("plain", 90000), ("cancel", 60000), ("sweep", 3600), ("disp-sweep", 1200)],
                "thorough": [("plain", 1800000), ("cancel", 1200000), ("sweep", 72000), ("disp-sweep", 24000), ("plain-deep", 360000), ("cancel-deep", 240000), ("sweep-deep", 14400), ("disp-sweep-deep", 4800)]},
               "C06-style programs (no harness code swallows CancelledError); one external cancel of a drawn actor at a random loop "
               "iteration or swept over EVERY iteration of the fault-free twin, ctx.cancel()/check_cancellation ops; landing points "
               "are classified; profile 'disp-sweep' adds failing/suspending disposables; user code may catch a cancellation "
               "(without uncancel) and ask again; non-trivial = a cancel was delivered", sweeps=("sweep", "disp-sweep")),
    "C08": _mk("C08", "fault_enumeration",
               {"quick": [("plain", 72000), ("faults", 90000), ("sweep", 3000)],
                "thorough": [("plain", 1440000), ("faults", 1800000), ("sweep", 60000), ("plain-deep", 288000), ("faults-deep", 360000), ("sweep-deep", 12000)]},
               "scopes with 0..4 disposable doubles (none/one/several states; ok/raise/suspend in enter and exit), Disposables or plain "
               "iterable, __aenter__/__aexit__ returning coroutines or plain awaitables, explicit state of the same type as a yielded one, "
               "body return/raise/cancel, all completion orders; non-trivial = a disposable fault fired or two blocks",
               sweeps=("sweep",)),
    "C09": _mk("C09", "exploration", {"quick": [("plain", 120000), ("faults", 60000)],
                                      "thorough": [("plain", 2400000), ("faults", 1200000), ("plain-deep", 480000), ("faults-deep", 240000)]},
               "scope trees (<=6 nodes, sync/async callbacks on every node) whose children run in the parent's task, in ctx.spawn tasks "
               "or in plain create_task tasks that may outlive the parent or create scopes after the parent completed; every "
               "linearisation of enter/exit via pauses and gates; profile 'faults' adds body raise, failing children, failing "
               "disposables and one external cancel so that every exit path is covered; callbacks may raise or open a scope themselves; "
               "scope objects may be prepared before their parent block is entered (and never entered); non-trivial = at least two scopes"),
    "C10": _mk("C10", "exploration", {"quick": [("plain", 150000)], "thorough": [("plain", 3000000), ("plain-deep", 600000)]},
               "scope trees (scope objects possibly prepared outside their parent) with record ops of two metric types, one with a default that "
               "is not neutral for the merges (merge replace/sum/concat(non-commutative)/raising) at any position, in "
               "concurrently running actors, outside scopes and after completion; reference left fold per scope and depth-first "
               "merged views; non-trivial = a record inside a nested scope or two actors"),
    "C19": _mk("C19", "exploration", {"quick": [("plain", 150000)], "thorough": [("plain", 3000000), ("plain-deep", 600000)]},
               "scope trees where each node optionally passes its own Logger and/or trace id, scope names from an alphabet incl. '', "
               "'100%', '%s', 'a b'; log ops of all four levels with %-arguments and optional exception, in the creating actor and "
               "in spawned actors, and outside any scope; non-trivial = a log line inside a nested scope"),
}
