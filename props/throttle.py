"""C15 - throttle never starts more than `limit` calls in any `period` window.

Exact virtual time: calls arrive at drawn instants (bursts, gaps of period-eps / period / period+eps),
same-instant arrivals are ordered by the scheduler (timer ties), the wrapped function has a drawn
duration and outcome.  Faults: timer lateness (profile 'jitter'), caller cancelled while queued
(profile 'cancel').  Oracle over the history of (arrival seq, arrival time, start time, outcome):
sliding-window bound, FIFO starts, no needless delay (fault-free profiles), liveness at quiescence.
"""
from __future__ import annotations

import asyncio
from datetime import timedelta

from props.common import Injected, Obj
from sim.loop import GRID
from sim.prop import Prop

EPS = 1e-9


class C15(Prop):
    id = "C15"
    level = "exploration"
    tiers = {
        "quick": [("plain", 180000), ("jitter", 72000), ("cancel", 72000)],
        "thorough": [("plain", 3600000), ("jitter", 1440000), ("cancel", 1440000), ("plain-deep", 400000), ("jitter-deep", 150000), ("cancel-deep", 150000)],
    }
    rule_text = (
        "one case = arrival pattern of 1..12 calls (gaps from {0, eps, period-eps, period, period+eps, period/2, "
        "2*period}), limit 1..4, period as float/int/timedelta, per-call duration in {0, period/2, period, 2*period} "
        "and outcome, + schedule (order of same-instant arrivals/timers, lateness, cancel instants); distinct = "
        "distinct event-log digest; non-trivial = at least one call had to wait (window full on arrival)"
    )
    components = {
        "real": ["haiway.helpers.throttling.throttle (unmodified)", "asyncio.Lock / sleep / Task (CPython)"],
        "stub": ["event loop + time.monotonic (virtual clock)", "wrapped function and callers are harness doubles"],
    }

    def sim_options(self, profile):
        return {"max_boundaries": 8000, "jitter_steps": 3 if profile.removesuffix("-deep") == "jitter" else 0}

    def execute(self, sim, profile):
        from haiway import throttle

        s = sim.source
        deep = profile.endswith("-deep")
        profile = profile.removesuffix("-deep")
        limit = (1 + s.draw(8, "limit")) if deep else (1 + s.weighted((4, 3, 2, 1), "limit"))
        pk = s.draw(8, "period")
        p_steps = (128, 256, 1024, 128, 1024, 86400 * 1024, 90000 * 1024 + 512, 342)[pk]
        period = p_steps * GRID
        if pk == 7:
            period += 2.0 ** -24  # about a third of a second, NOT a whole number of microseconds: 333984.43 us (nor of grid steps)
        if pk == 3:
            period_arg = timedelta(seconds=period)
        elif pk == 4:
            period_arg = 1  # the documented default spelling: an int
        elif pk == 5:
            period_arg = timedelta(days=1)
        elif pk == 6:
            period_arg = timedelta(days=1, hours=1, milliseconds=500)
        else:
            period_arg = period
        n = (6 + s.geometric(34, 12, "ncalls")) if deep else (1 + s.geometric(11, 5, "ncalls"))
        # one decorator object may decorate two functions: each has its own window
        two_functions = s.chance(1, 4, "two-functions")
        odd_kwargs = {"limit": 9, "period": 3} if s.chance(1, 3, "odd-kwargs") else {}
        # the library reads time.monotonic, the loop has its own clock: they need not share an epoch (and a long uptime
        # makes the readings large)
        sim.mono_epoch = (0.0, 0.0, 4096.0, 5000000.0)[s.draw(4, "clock-epoch")]
        gaps = (0, 0, 1, p_steps - 1, p_steps, p_steps + 1, p_steps // 2, 2 * p_steps)
        durs = (0, 0, p_steps // 2, p_steps, 2 * p_steps)
        t = (0, 5, p_steps)[s.draw(3, "t0")]
        calls = []
        for i in range(n):
            if i:
                t += gaps[s.draw(len(gaps), "gap")]
            calls.append({"at": t, "dur": durs[s.draw(len(durs), "dur")], "exc": s.chance(1, 4, "exc"),
                          "cancel": None, "fn": s.draw(2, "which-fn") if two_functions else 0})
        if profile == "cancel":
            for _ in range(1 + s.draw(2, "ncancel")):
                j = s.draw(n, "victim")
                off = (0, 1, p_steps // 2, p_steps, p_steps + 1)[s.draw(5, "cancel-off")]
                calls[j]["cancel"] = calls[j]["at"] + off
        sim.program = {"limit": limit, "period_steps": p_steps, "monotonic_epoch": sim.mono_epoch, "period_as": type(period_arg).__name__,
                       "calls": calls}

        results = [Obj(("r", i)) for i in range(n)]
        excs = [Injected(("e", i)) for i in range(n)]
        arrivals = []  # (i, time)
        starts = []  # (i, time)
        started = set()
        outcome_of = {}
        cancelled_ok = set()
        must_start_at = {}
        tasks = {}

        async def fn(i, *, tag, **extra):
            if tag != ("t", i) or extra != odd_kwargs:
                sim.fail("arguments", f"function got tag {tag!r}, extra keywords {extra!r} for call {i}")
            starts.append((i, sim.now))
            started.add(i)
            sim.event("start", i)
            if calls[i]["dur"]:
                await asyncio.sleep(calls[i]["dur"] * GRID)
            if calls[i]["exc"]:
                raise excs[i]
            return results[i]

        decorator = throttle(limit=limit, period=period_arg)

        async def fn_b(i, *, tag, **extra):
            return await fn(i, tag=tag, **extra)

        throttled_by_fn = [decorator(fn), decorator(fn_b)]

        async def call(i):
            a = sim.now
            arrivals.append((i, a))
            sim.event("arrive", i)
            mine = calls[i]["fn"]
            recent = sum(1 for (j, ts) in starts if ts > a - period + EPS and calls[j]["fn"] == mine)
            waiting = any((j not in started) and (j not in cancelled_ok) and calls[j]["fn"] == mine for (j, _ta) in arrivals[:-1])
            if recent < limit and not waiting:
                must_start_at[i] = a
            else:
                sim.nontrivial = True
                sim.stats["had_to_wait"] += 1
            try:
                r = await throttled_by_fn[calls[i]["fn"]](i, tag=("t", i), **odd_kwargs)
            except asyncio.CancelledError:
                outcome_of[i] = ("cancelled", None)
                raise
            except BaseException as exc:  # noqa: BLE001
                outcome_of[i] = ("raised", exc)
            else:
                outcome_of[i] = ("value", r)
            sim.event("done", i, outcome_of[i][0])

        async def main():
            done = sim.loop.create_future()
            remaining = [n]

            def finished(_t):
                remaining[0] -= 1
                if remaining[0] == 0 and not done.done():
                    done.set_result(None)

            def arrive(i):
                tk = sim.loop.create_task(call(i))
                tasks[i] = tk
                tk.add_done_callback(finished)

            def cancel(i):
                tk = tasks.get(i)
                if tk is None:
                    # cancelled at its own arrival instant before the arrival timer ran: cancel on arrival
                    sim.loop.call_soon(cancel_now, i)
                    return
                cancel_now(i)

            def cancel_now(i):
                tk = tasks.get(i)
                if tk is not None and tk.cancel():
                    cancelled_ok.add(i)
                    kind = "in_function" if i in started else "while_queued"
                    sim.stats[f"fault:cancel_{kind}"] += 1
                    sim.event("cancel", i)

            for i, c in enumerate(calls):
                sim.at(c["at"] * GRID, arrive, i)
            for i, c in enumerate(calls):
                if c["cancel"] is not None:
                    sim.at(c["cancel"] * GRID, cancel, i)
            await done

        outcome = sim.run(main)
        if sim.violation is not None or sim.harness_errors:
            return
        if outcome == "deadlock":
            stuck = [i for i in range(n) if i not in outcome_of]
            sim.fail_post("starved", f"calls {stuck} never completed (limit={limit}, period={period})")
            return
        if outcome != "ok":
            return
        if sim.main.exception() is not None:
            sim.harness_error(f"main failed: {sim.main.exception()!r}")
            return

        all_starts, all_arrivals = starts, arrivals
        for which in ((0, 1) if two_functions else (0,)):
            starts = [(i, ts) for (i, ts) in all_starts if calls[i]["fn"] == which]
            arrivals = [(i, ta) for (i, ta) in all_arrivals if calls[i]["fn"] == which]
            if self.judge_function(sim, profile, limit, period, starts, arrivals, started, cancelled_ok, must_start_at, two_functions):
                return
        starts, arrivals = all_starts, all_arrivals
        self.judge_outcomes(sim, n, calls, outcome_of, cancelled_ok, results, excs)

    def judge_function(self, sim, profile, limit, period, starts, arrivals, started, cancelled_ok, must_start_at, two_functions):
        # 1. sliding window
        times = [ts for (_i, ts) in starts]
        for k in range(len(times) - limit):
            if times[k + limit] - times[k] < period - EPS:
                sim.fail_post(
                    "window", f"{limit + 1} starts within less than one period: calls "
                    f"{[i for i, _ in starts[k:k + limit + 1]]} started at {times[k:k + limit + 1]} "
                    f"(limit={limit}, period={period})")
                return True
        # 2. FIFO
        order = [i for (i, _a) in arrivals if i in started]
        got = [i for (i, _s) in starts]
        if profile != "cancel" or not cancelled_ok:
            if got != order:
                sim.fail_post("order", f"calls started in order {got} but arrived in order {order}")
                return True
        else:
            # with cancellations: the surviving calls must still start in arrival order
            surv = [i for i in order if i not in cancelled_ok]
            if [i for i in got if i not in cancelled_ok] != surv:
                sim.fail_post("order", f"surviving calls started in order {got} but arrived {order}")
                return True
        # 3. no needless delay (also after cancellations: a caller that gave up while queued never began, so it
        #    must not count against later callers; must_start_at was decided on arrival from what had begun)
        if True:
            st = dict(starts)
            for i, a in must_start_at.items():
                if i in st and st[i] > a + EPS:
                    sim.fail_post("needless-delay", f"call {i} arrived at {a} with the window open and nobody waiting "
                                  f"but started at {st[i]}" + (" (two functions share one decorator object)" if two_functions else ""),
                                  **({"shared_decorator": 1} if two_functions else {}))
                    return True
        return False

    def judge_outcomes(self, sim, n, calls, outcome_of, cancelled_ok, results, excs):
        # 4. liveness + transparency
        for i in range(n):
            kind, obj = outcome_of.get(i, (None, None))
            if i in cancelled_ok:
                continue  # only the bound, order and liveness of the others are checked
            if kind is None:
                sim.fail_post("starved", f"call {i} never completed")
                return
            want = ("raised", excs[i]) if calls[i]["exc"] else ("value", results[i])
            if kind != want[0] or obj is not want[1]:
                sim.fail_post("outcome", f"call {i} returned {kind} {obj!r}, expected the function's own {want[0]}")
                return
        if sim.loop_errors:
            sim.fail_post("loop-error", f"loop exception handler called: {sim.loop_errors[:2]}")


from sim.prop import with_eager  # noqa: E402

C15.tiers = with_eager(C15.tiers, [('plain', 60000), ('cancel', 24000)])
PROPS = {"C15": C15()}
