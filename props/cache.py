"""C12 - cache returns only right-key, unexpired results and retains the LRU `limit`.

Sequential histories of calls, virtual-clock advances (biased to land just before / at / just after
the expiry of a live entry), gc points and wrapped-function errors, for the four flavours (sync/async
function, sync/async method).  Oracle: reference LRU with lazy expiry over exact call forms:
safety / must-hit / retention / error transparency (DESIGN 4, C12).
"""
from __future__ import annotations

import asyncio
import gc
import weakref

from props.common import Injected, Obj
from sim.loop import GRID
from sim.prop import Prop

EPS = 1e-9
NESTED_A = "key of the nested call"
A_VALUES = (1, 1.0, True, "1", 2, (1,))
B_VALUES = (10, 10.0, 2)
FLAVOURS = ("sync-fn", "async-fn", "sync-method", "async-method", "async-fn-wrapping-sync")
EXPIRATIONS = (None, 128, 1024, 5120)  # grid steps


class Receiver:
    """Hashable and equal by value: two distinct receivers may compare equal."""

    generations = 0

    def __init__(self, value, idx):
        self.value = value
        self.idx = idx
        Receiver.generations += 1
        self.gen = Receiver.generations

    def __eq__(self, other):
        return isinstance(other, Receiver) and other.value == self.value

    def __hash__(self):
        return hash(("R", self.value))


def typed(v):
    return (type(v).__name__, repr(v))


class C12(Prop):
    id = "C12"
    level = "exploration"
    tiers = {
        "quick": [("history", 240000), ("expiry", 150000)],
        "thorough": [("history", 4800000), ("expiry", 3000000), ("deep", 150000)],
    }
    rule_text = (
        "one case = flavour (sync/async function, sync/async method, async adapter over a sync function) x clock epoch x limit 1..4 x expiration {None, 1/8, 1, 5} x a "
        "history of <=60 ops over call(form)/advance/gc-check/drop-receiver/replace-receiver/shallow-copy-receiver with arguments from {1, 1.0, True, '1', 2, "
        "(1,)} in positional and keyword forms on 1..3 receivers (two of them ==-equal but distinct); distinct = "
        "distinct event-log digest (program included); non-trivial = the history reached an eviction, an expiry, or "
        "a call at age == expiration"
    )
    components = {
        "real": ["haiway.helpers.caching.cache (_SyncCache/_AsyncCache, unmodified)", "asyncio.Task/shield (CPython)"],
        "stub": ["time.monotonic (virtual clock)", "event loop (SimLoop)", "wrapped function / receivers are harness doubles"],
    }

    def sim_options(self, profile):
        return {"max_boundaries": 30000}

    def execute(self, sim, profile):
        from haiway import cache

        s = sim.source
        Receiver.generations = 0  # per-run numbering (the event log must not depend on earlier runs)
        flavour = FLAVOURS[s.weighted((2, 2, 2, 2, 1), "flavour")]
        # the library clock and the loop clock need not share an epoch; large readings make relative tolerances visible
        sim.mono_epoch = (0.0, 0.0, 4096.0, 5000000.0)[s.draw(4, "clock-epoch")]
        limit = 1 + s.draw(8 if profile == "deep" else 4, "limit")
        if profile == "expiry":
            exp_steps = EXPIRATIONS[1 + s.draw(3, "exp")]
        else:
            exp_steps = EXPIRATIONS[s.weighted((3, 1, 1, 1), "exp")]
        expiration = None if exp_steps is None else exp_steps * GRID
        n_recv = 1 + s.draw(3, "nrecv") if "method" in flavour else 1
        n_ops = (20 + s.geometric(230, 60, "nops")) if profile == "deep" else (2 + s.geometric(58, 10, "nops"))
        n_a = 2 + s.draw(len(A_VALUES) - 1, "alphabet")
        ops = []
        for _ in range(n_ops):
            k = s.weighted((12, 3, 1, 1, 1 if n_recv else 0, 1 if "method" in flavour else 0) if profile in ("history", "deep") else (8, 6, 1, 0, 0, 0), "op")
            if k == 0:
                form = s.weighted((4, 2, 1, 1, 1), "form")  # (a), (a=), (a, b), (a, b=), (a, c=) - c is keyword-only
                a = s.draw(n_a, "a")
                b = s.draw(len(B_VALUES), "b") if form >= 2 else None
                raises = int(s.chance(1, 8, "raise"))
                # re-entrancy: while it computes a miss, the wrapped function calls the SAME cached function for another key
                nested = int((not raises) and s.chance(1, 10, "nested-call"))
                ops.append(["call", s.draw(n_recv, "recv"), form, a, b, raises, nested])
            elif k == 1:
                ops.append(["advance", s.draw(4, "adv-kind"), s.draw(4, "adv-entry"), s.draw(3, "adv-off")])
            elif k == 2:
                ops.append(["gc"])
            elif k == 3:
                ops.append(["drop", s.draw(n_recv, "recv")])
            elif k == 4:
                ops.append(["replace", s.draw(n_recv, "recv")])
            else:
                ops.append(["clone", s.draw(n_recv, "recv")])
        sim.program = {"flavour": flavour, "limit": limit, "expiration_steps": exp_steps, "receivers": n_recv,
                       "ops": ops}

        inv = {}  # tag -> record
        counter = [0]
        raise_next = [None]
        ncall = [0]

        def produce(recv, a, b):
            counter[0] += 1
            tag = counter[0]
            rec = {"tag": tag, "bound": (typed(a), typed(b)), "recv": None if recv is None else recv.idx,
                   "gen": None if recv is None else recv.gen, "t": sim.now}
            inv[tag] = rec
            sim.event("invoke", tag, rec["bound"], rec["recv"])
            if raise_next[0] is not None and a != NESTED_A:
                exc = raise_next[0]
                rec["raised_tag"] = exc.tag
                raise exc
            obj = Obj(tag)
            rec["ref"] = weakref.ref(obj)
            return obj

        nest = [None]  # set by the driver right before a call whose miss must call the cache again

        def nest_sync(a):
            if nest[0] is not None and a != NESTED_A:
                call, nest[0] = nest[0], None
                sim.stats["nested_call_while_computing_a_miss"] += 1
                call(NESTED_A)

        async def nest_async(a):
            if nest[0] is not None and a != NESTED_A:
                call, nest[0] = nest[0], None
                sim.stats["nested_call_while_computing_a_miss"] += 1
                await call(NESTED_A)

        kwargs = {"limit": limit}
        if expiration is not None:
            kwargs["expiration"] = expiration
        is_async = flavour.startswith("async")
        if flavour == "sync-fn":
            @cache(**kwargs)
            def fn(a, b=10, *, c=0):
                nest_sync(a)
                return produce(None, a, (b, c))
            target = [lambda r: fn]
        elif flavour == "async-fn":
            @cache(**kwargs)
            async def fn(a, b=10, *, c=0):
                await nest_async(a)
                return produce(None, a, (b, c))
            target = [lambda r: fn]
        elif flavour == "async-fn-wrapping-sync":
            # an async adapter around a sync function (it exposes __wrapped__ = the sync one): what counts is the adapter
            from haiway import wrap_async

            def sync_original(a, b=10, *, c=0):
                nest_sync(a)
                return produce(None, a, (b, c))

            fn = cache(**kwargs)(wrap_async(sync_original))
            target = [lambda r: fn]
        elif flavour == "sync-method":
            class Host(Receiver):
                @cache(**kwargs)
                def m(self, a, b=10, *, c=0):
                    nest_sync(a)
                    return produce(self, a, (b, c))
            target = None
        else:
            class Host(Receiver):  # noqa: F811
                @cache(**kwargs)
                async def m(self, a, b=10, *, c=0):
                    await nest_async(a)
                    return produce(self, a, (b, c))
            target = None
        receivers = {}
        if target is None:
            values = (1, 1, 2)
            for i in range(n_recv):
                receivers[i] = Host(values[i], i)

        # reference model: recency list of forms, entry per form = (tag, t_inv) last returned for that form
        recency = []  # form keys, most recent last
        entries = {}
        flags = {"evict": False, "expire": False}

        async def main():
            for op in ops:
                kind = op[0]
                if kind == "advance":
                    _k, how, which, off = op
                    dt = None
                    if how >= 1 and exp_steps is not None and entries:
                        live = sorted(entries.values(), key=lambda e: e[1])
                        tag, t_inv = live[which % len(live)]
                        when = t_inv + exp_steps * GRID + (off - 1) * GRID
                        if when > sim.now:
                            dt = when - sim.now
                    if dt is None:
                        dt = (1, 64, exp_steps or 1024, 2 * (exp_steps or 1024))[which] * GRID
                    sim.loop._now += dt
                    sim.event("advance", dt)
                    sim.stats["fault:clock_jump"] += 1
                elif kind == "gc":
                    if is_async:
                        # let the loop drop its own transient references (done-callbacks of tasks that just finished)
                        await asyncio.sleep(0)
                        await asyncio.sleep(0)
                    gc.collect()
                    alive = [t for t, r in inv.items() if "ref" in r and r["ref"]() is not None]
                    sim.event("gc", len(alive))
                    if len(alive) > limit:
                        sim.fail("retention", f"{len(alive)} result objects are still alive although the harness dropped "
                                 f"them and limit={limit}: invocations {alive}", flavour=flavour)
                elif kind == "drop":
                    if receivers.get(op[1]) is not None and len([r for r in receivers.values() if r is not None]) > 1:
                        receivers[op[1]] = None
                        sim.event("drop-receiver", op[1])
                elif kind == "replace":
                    if target is None and receivers.get(op[1]) is not None:
                        # the old receiver dies and a new, equal one is allocated right away (CPython usually hands
                        # out the same address again): it must not inherit the dead one's entries
                        old_value = receivers[op[1]].value
                        receivers[op[1]] = None
                        receivers[op[1]] = Host(old_value, op[1])
                        sim.stats["receiver_replaced"] += 1
                        sim.event("replace-receiver", op[1])
                elif kind == "clone":
                    if target is None and receivers.get(op[1]) is not None:
                        # the receiver is replaced by a shallow copy of itself (copy.copy clones its __dict__): the copy is a
                        # different object, so it is a different key and its method must run with the copy as self
                        import copy
                        clone = copy.copy(receivers[op[1]])
                        Receiver.generations += 1
                        clone.gen = Receiver.generations
                        receivers[op[1]] = clone
                        sim.stats["receiver_cloned"] += 1
                        sim.event("clone-receiver", op[1])
                else:
                    _k, ridx, form, ai, bi, raises = op[:6]
                    nested = op[6] if len(op) > 6 else 0
                    a = A_VALUES[ai]
                    b = B_VALUES[bi] if bi is not None and form != 4 else 10
                    c_kw = B_VALUES[bi] if form == 4 else 0
                    recv = None
                    if target is None:
                        recv = receivers.get(ridx)
                        if recv is None:
                            continue
                        f = recv.m
                    else:
                        f = fn
                    # the receiver *object* is part of the key: a replaced receiver starts a new key
                    fkey = (recv.gen if recv is not None else None, form, typed(a),
                            (("c", typed(c_kw)) if form == 4 else typed(b)) if bi is not None else None)
                    if form == 0:
                        args, kw = (a,), {}
                    elif form == 1:
                        args, kw = (), {"a": a}
                    elif form == 2:
                        args, kw = (a, b), {}
                    elif form == 3:
                        args, kw = (a,), {"b": b}
                    else:
                        args, kw = (a,), {"c": c_kw}  # differs from other calls only in a keyword-only argument
                    before = counter[0]
                    ncall[0] += 1
                    exc_to_raise = Injected(("call", ncall[0])) if raises else None
                    raise_next[0] = exc_to_raise
                    # expectation
                    must_hit = False
                    if fkey in entries and fkey in recency:
                        rank = len(recency) - 1 - recency.index(fkey)
                        tag0, t0 = entries[fkey]
                        age = sim.now - t0
                        if rank < limit:
                            if expiration is None or age < expiration - EPS:
                                must_hit = True
                            elif abs(age - expiration) <= EPS:
                                sim.stats["age_equals_expiration"] += 1
                                sim.nontrivial = True
                            else:
                                flags["expire"] = True
                                sim.nontrivial = True
                        else:
                            flags["evict"] = True
                            sim.nontrivial = True
                    sim.event("call", fkey)
                    result = None
                    raised = None
                    # the nested call is made through the same cached callable (the adapter flavour nests from the sync original:
                    # not possible there)
                    nest[0] = f if (nested and flavour != "async-fn-wrapping-sync") else None
                    nkey = (recv.gen if recv is not None else None, 0, typed(NESTED_A), None)
                    try:
                        result = (await f(*args, **kw)) if is_async else f(*args, **kw)
                    except Injected as exc:
                        raised = exc
                        # the caller does not keep the traceback (its frames reference cache internals, which
                        # would make the harness itself keep evicted results alive)
                        exc.__traceback__ = None
                    except BaseException as exc:  # noqa: BLE001
                        from sim.loop import SimStop
                        if isinstance(exc, SimStop):
                            raise
                        sim.fail("foreign-exception", f"call {fkey} raised {exc!r}, which the wrapped function never raised", flavour=flavour,
                                 error=type(exc).__name__)
                    raise_next[0] = None
                    nest[0] = None
                    new_recs = [inv[t] for t in range(before + 1, counter[0] + 1)]
                    nested_recs = [r for r in new_recs if r["bound"][0] == typed(NESTED_A)]
                    invoked = len(new_recs) - len(nested_recs)

                    def touch(key):
                        if key in recency:
                            recency.remove(key)
                        recency.append(key)

                    def nested_step():
                        # the nested call as the reference sees it: a call of its own, made while the outer miss was being computed
                        n_hit = False
                        if nkey in entries and nkey in recency:
                            n_rank = len(recency) - 1 - recency.index(nkey)
                            n_age = sim.now - entries[nkey][1]
                            n_hit = n_rank < limit and (expiration is None or n_age < expiration - EPS)
                        if n_hit and nested_recs:
                            sim.fail("must-hit", f"nested call {nkey} (made while {fkey} was being computed) is among the {limit} most recently "
                                     f"used forms and unexpired but the function was invoked again", flavour=flavour, nested=1)
                        if len(nested_recs) > 1:
                            sim.fail("double-invocation", f"the nested call invoked the function {len(nested_recs)} times")
                        if nested_recs:
                            entries[nkey] = (nested_recs[0]["tag"], nested_recs[0]["t"])
                        touch(nkey)

                    ran_body = bool(invoked) and nested and flavour != "async-fn-wrapping-sync"
                    if ran_body and is_async:
                        touch(fkey)      # async: the entry of the outer call is stored before its body runs ...
                        nested_step()    # ... so the nested call is the more recent use
                    elif ran_body:
                        nested_step()    # sync: the outer entry is stored after the function returned
                        touch(fkey)
                    else:
                        touch(fkey)
                    if invoked > 1:
                        sim.fail("double-invocation", f"one call invoked the function {invoked} times")
                    if must_hit and invoked:
                        sim.fail("must-hit", f"call {fkey} is among the {limit} most recently used forms and unexpired "
                                 f"(age {sim.now - entries[fkey][1]}, expiration {expiration}) but the function was invoked again",
                                 flavour=flavour)
                    if must_hit:
                        sim.stats["hit"] += 1
                    if raised is not None:
                        if not invoked:
                            # an error served from the cache: only legitimate for a cached failed async invocation
                            # of equal arguments (ground rule 2); it must then be a recorded raised object
                            src = [r for r in inv.values() if r.get("raised_tag") == raised.tag]
                            if not src or not is_async:
                                sim.fail("error-from-nowhere", f"call {fkey} raised {raised!r} without invoking the function")
                            rec = src[0]
                        else:
                            if raised is not exc_to_raise:
                                sim.fail("error-identity", f"call raised {raised!r}, the function raised {exc_to_raise!r}")
                            entries.pop(fkey, None)
                            del raised, exc_to_raise
                            continue
                    else:
                        if invoked and exc_to_raise is not None:
                            sim.fail("error-swallowed", f"the function raised {exc_to_raise!r} but the call returned {result!r}")
                        if not isinstance(result, Obj) or result.tag not in inv:
                            sim.fail("garbage", f"call {fkey} returned {result!r}, not a value produced by the function")
                        rec = inv[result.tag]
                    # safety
                    want_bound = (typed(a), typed((b, c_kw)))
                    if rec["bound"] != want_bound:
                        sim.fail("wrong-key", f"call with bound arguments {want_bound} was answered with the result of an "
                                 f"invocation with {rec['bound']}", flavour=flavour)
                    if recv is not None and rec["recv"] == recv.idx and rec["gen"] != recv.gen:
                        sim.fail("dead-receiver", f"call on a new receiver (slot #{recv.idx}) was answered with the result produced for "
                                 f"an earlier, already collected receiver object", flavour=flavour)
                    if rec["recv"] != (recv.idx if recv is not None else None):
                        sim.fail("wrong-receiver", f"call on receiver #{recv.idx} was answered with the result produced for "
                                 f"receiver #{rec['recv']} (they compare equal but are distinct objects)", flavour=flavour)
                    age = sim.now - rec["t"]
                    if expiration is not None and age > expiration + EPS:
                        sim.fail("stale", f"call {fkey} was answered from an invocation of age {age} > expiration {expiration}",
                                 flavour=flavour)
                    if raised is None:
                        entries[fkey] = (rec["tag"], rec["t"])
                    del result, raised, exc_to_raise

        outcome = sim.run(main)
        if sim.violation is not None or sim.harness_errors:
            return
        if outcome != "ok":
            return
        if sim.main.exception() is not None:
            sim.harness_error(f"main failed: {sim.main.exception()!r}")
            return
        if flags["evict"]:
            sim.stats["reached_eviction"] += 1
        if flags["expire"]:
            sim.stats["reached_expiry"] += 1


from sim.prop import with_eager  # noqa: E402

C12.tiers = with_eager(C12.tiers, [('history', 60000)])
PROPS = {"C12": C12()}
