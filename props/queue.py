"""C17 - AsyncQueue delivers every element exactly once, in order, then the finish reason.

Workload: a generated list of driver operations (enqueue one/many, finish, finish with error,
cancel queue, start a consumer, cancel the pending receive) is executed as a chain of *external
events*: the scheduler decides in which loop iteration each is noticed, and may notice several in
the same iteration, which is what makes "element handed to a woken-but-not-yet-resumed consumer,
then that consumer is cancelled" reachable.  Consumers are real tasks calling ``anext(queue)``.

Oracle: reference FIFO with exactly-once accounting (lock-step per receive + history at quiescence).
"""
from __future__ import annotations

import asyncio

from sim.prop import Prop


class GivenError(Exception):
    pass


class C17(Prop):
    id = "C17"
    level = "exploration"
    tiers = {
        "quick": [("default", 360000), ("burst", 180000)],
        "thorough": [("default", 7200000), ("burst", 3600000), ("deep", 300000)],
    }
    rule_text = (
        "one case = one generated driver-op list (<=40 ops over enqueue/enqueue-many/finish/finish(error)/"
        "cancel-queue/start-consumer (anext calls or an `async for` left early)/cancel-pending-receive/rejected second receive) + one drawn schedule (which loop iteration "
        "notices each op, how many per iteration); distinct = distinct sha256 of the full event log; "
        "non-trivial = at least one enqueue met a suspended receive (hand-off) or a cancel landed on a "
        "pending receive"
    )
    components = {
        "real": ["haiway.utils.queue.AsyncQueue (unmodified)", "asyncio.Task / Future (CPython)"],
        "stub": ["event loop (SimLoop: virtual clock, seeded placement of external events)",
                 "producer and consumer are harness actors"],
    }

    def sim_options(self, profile):
        return {"max_boundaries": 60000}

    # ------------------------------------------------------------------------------------------
    def generate(self, sim, profile):
        s = sim.source
        if profile == "deep":
            n = 10 + s.geometric(140, 40, "nops")
        elif profile == "burst":
            n = 2 + s.geometric(38, 6, "nops")
        else:
            n = 1 + s.geometric(39, 9, "nops")
        ops = []
        initial = s.geometric(3, 2, "initial") if s.chance(1, 5, "has-initial") else 0
        value = [0]

        def fresh():
            value[0] += 1
            # mostly unique numbers; now and then the legitimate elements None / an exception instance (a value like
            # any other: it must be delivered, not raised)
            k = s.weighted((16, 2, 1), "element-kind")
            return value[0] if k == 0 else (None if k == 1 else ["exception-element", value[0]])

        init_vals = [fresh() for _ in range(initial)]
        # weights: enq, enqmany, start, cancel_recv, finish, finish_err, cancel_q, intrude
        weights = (6, 2, 4, 3, 1, 1, 1, 1) if profile == "default" else (8, 3, 4, 5, 1, 0, 0, 1)
        if profile == "deep":
            weights = (10, 3, 4, 4, 0, 0, 0, 1)  # long histories: the queue stays open until the tail
        for _ in range(n):
            k = s.weighted(weights, "op")
            if k == 0:
                ops.append(["enq", fresh()])
            elif k == 1:
                if s.chance(1, 40, "big-batch"):
                    ops.append(["enqmany", [fresh() for _ in range(1200)]])  # one enqueue call with very many elements
                else:
                    ops.append(["enqmany", [fresh() for _ in range(2 + s.draw(2, "many"))]])
            elif k == 2:
                # consumer: pauses between receives? how many receives (0 = until the end)
                # ... and how it receives: explicit anext() calls, or an `async for` statement left by `break`/return
                ops.append(["start", s.draw(2, "pauses"), s.draw(4, "limit"), s.draw(2, "style")])
            elif k == 3:
                ops.append(["cancel_recv"])
            elif k == 4:
                ops.append(["finish"])
            elif k == 5:
                ops.append(["finish_err"])
            elif k == 6:
                ops.append(["cancel_q"])
            else:
                # a mistaken second receive while the consumer's receive is pending: the queue rejects it, and a rejected
                # operation must leave the real consumer undisturbed
                ops.append(["intrude"])
        # tail: make sure the queue finishes and a last consumer drains it completely
        ops.append(["finish"])
        ops.append(["start", 0, 0, 0])
        sim.program = {"initial": init_vals, "ops": ops}
        return init_vals, ops

    # ------------------------------------------------------------------------------------------
    def execute(self, sim, profile):
        from haiway import AsyncQueue

        init_vals, ops = self.generate(sim, profile)
        exc_elements = {}

        def real(v):
            if isinstance(v, list) and v and v[0] == "exception-element":
                if v[1] not in exc_elements:
                    exc_elements[v[1]] = ValueError(("element", v[1]))
                return exc_elements[v[1]]
            return v

        init_vals = [real(v) for v in init_vals]
        ops = [[o[0], real(o[1])] if o[0] == "enq" else ([o[0], [real(x) for x in o[1]]] if o[0] == "enqmany" else o) for o in ops]
        st = {
            "accepted": list(init_vals), "received": [], "finished": False, "reason": None,
            "reason_kind": None, "reason_seen": False, "consumer": None, "in_recv": False,
            "handed": False, "cid": 0, "final_done": False, "harness_cancel": set(),
        }
        cause = GivenError("cause of the given error")
        try:
            raise GivenError("given") from cause  # a reason captured from a real raise: it has a traceback and a cause
        except GivenError as caught:
            given = caught
        given_tb = given.__traceback__
        holder = {}

        def check_reason(exc, where):
            kind = st["reason_kind"]
            if kind is None:
                sim.fail("reason-before-finish", f"receive ended with {exc!r} but the queue was never finished ({where})")
            if kind == "stop" and not isinstance(exc, StopAsyncIteration):
                sim.fail("wrong-reason", f"finished normally but receive raised {exc!r} ({where})", kind=kind)
            if kind == "error" and exc is not given:
                sim.fail("wrong-reason", f"finished with the given error but receive raised {exc!r} ({where})", kind=kind)
            if kind == "error":
                tb, kept = given.__traceback__, False
                while tb is not None:
                    if tb is given_tb or tb.tb_frame is given_tb.tb_frame:
                        kept = True  # the traceback it was given with is still part of the chain (re-raising only adds entries)
                        break
                    tb = tb.tb_next
                if given.__cause__ is not cause or not kept:
                    sim.fail("reason-damaged", f"the given finish reason came out of the receive without its "
                             f"{'cause' if given.__cause__ is not cause else 'original traceback'} ({where})")
            if kind == "cancel" and not isinstance(exc, asyncio.CancelledError):
                sim.fail("wrong-reason", f"queue cancelled but receive raised {exc!r} ({where})", kind=kind)
            if len(st["received"]) != len(st["accepted"]):
                missing = st["accepted"][len(st["received"]):]
                sim.fail("lost", f"finish reason delivered while accepted elements {missing} were never received",
                         how="reason-before-elements")
            st["reason_seen"] = True

        def on_value(v, cid):
            rec, acc = st["received"], st["accepted"]
            sim.event("recv", cid, v)
            if len(rec) < len(acc) and acc[len(rec)] == v and (v is None) == (acc[len(rec)] is None):
                rec.append(v)
                return
            if v is not None and v in rec:
                sim.fail("duplicate", f"element {v} received twice (received so far {rec})")
            if v in acc:
                sim.fail("lost", f"received {v} but expected {acc[len(rec)]}: an earlier accepted element was skipped "
                         f"(accepted {acc}, received {rec})", how="skipped")
            sim.fail("garbage", f"received {v!r} which was never accepted")

        async def consumer(cid, pauses, limit):
            q = holder["q"]
            me = asyncio.current_task()
            n = 0
            try:
                while True:
                    st["in_recv"] = True
                    st["handed"] = False
                    sim.event("recv-start", cid)
                    try:
                        v = await anext(q)
                    except asyncio.CancelledError as exc:
                        st["in_recv"] = False
                        if me in st["harness_cancel"]:
                            sim.event("recv-cancelled", cid)
                            raise
                        check_reason(exc, "pending or new receive")
                        break
                    except BaseException as exc:  # noqa: BLE001
                        st["in_recv"] = False
                        if any(exc is e for e in exc_elements.values()):
                            sim.fail("element-raised", f"element {exc!r} (an exception instance used as a value) was raised by the "
                                     f"receive instead of being returned")
                        check_reason(exc, "pending or new receive")
                        break
                    st["in_recv"] = False
                    on_value(v, cid)
                    n += 1
                    if limit and n >= limit:
                        return
                    if pauses:
                        await sim.pause(f"c{cid}")
                # the reason was observed: every further receive must end with it as well
                for _ in range(2):
                    try:
                        v = await anext(q)
                    except BaseException as exc:  # noqa: BLE001
                        if isinstance(exc, asyncio.CancelledError) and me in st["harness_cancel"]:
                            raise
                        check_reason(exc, "receive after the reason was already delivered")
                    else:
                        sim.fail("value-after-reason", f"receive returned {v!r} after the finish reason")
            finally:
                st["in_recv"] = False

        async def consumer_for(cid, pauses, limit):
            # the same consumer written with `async for`; leaving the loop early and looping again later is ordinary use
            q = holder["q"]
            me = asyncio.current_task()
            n = 0
            sim.stats["consumer_async_for"] += 1
            try:
                st["in_recv"], st["handed"] = True, False
                sim.event("recv-start", cid)
                try:
                    async for v in q:
                        st["in_recv"] = False
                        on_value(v, cid)
                        n += 1
                        if limit and n >= limit:
                            sim.stats["async_for_left_early"] += 1
                            return
                        if pauses:
                            await sim.pause(f"c{cid}")
                        st["in_recv"], st["handed"] = True, False
                        sim.event("recv-start", cid)
                except asyncio.CancelledError as exc:
                    st["in_recv"] = False
                    if me in st["harness_cancel"]:
                        sim.event("recv-cancelled", cid)
                        raise
                    check_reason(exc, "async for")
                except BaseException as exc:  # noqa: BLE001
                    st["in_recv"] = False
                    from sim.loop import SimStop
                    if isinstance(exc, SimStop):
                        raise
                    if any(exc is e for e in exc_elements.values()):
                        sim.fail("element-raised", f"element {exc!r} (an exception instance used as a value) was raised by the "
                                 f"receive instead of being returned")
                    check_reason(exc, "async for")
                else:
                    st["in_recv"] = False
                    check_reason(StopAsyncIteration(), "async for ended normally")
            finally:
                st["in_recv"] = False

        def consumer_idle():
            c = st["consumer"]
            return c is None or c.done()

        def do(op):
            q = holder["q"]
            kind = op[0]
            sim.event("op", *[repr(x)[:200] for x in op])
            if kind in ("enq", "enqmany"):
                vals = [op[1]] if kind == "enq" else list(op[1])
                if st["in_recv"] and not st["handed"]:
                    sim.stats["handoff"] += 1
                    st["handed"] = True
                    sim.nontrivial = True
                try:
                    q.enqueue(*vals)
                except Exception as exc:  # noqa: BLE001
                    if not st["finished"]:
                        sim.fail("enqueue-rejected", f"enqueue on an unfinished queue raised {exc!r}")
                    sim.stats["enqueue_after_finish"] += 1
                else:
                    if st["finished"]:
                        sim.fail("enqueue-after-finish-accepted", f"enqueue{tuple(vals)} after finish did not fail")
                    st["accepted"].extend(vals)
            elif kind in ("finish", "finish_err", "cancel_q"):
                if kind == "finish":
                    q.finish()
                elif kind == "finish_err":
                    sim.stats["fault:finish_with_error"] += 1
                    q.finish(given)
                else:
                    sim.stats["fault:cancel_queue"] += 1
                    q.cancel()
                if not st["finished"]:
                    st["finished"] = True
                    st["reason_kind"] = {"finish": "stop", "finish_err": "error", "cancel_q": "cancel"}[kind]
                if not q.is_finished:
                    sim.fail("not-finished", "is_finished is False after finish")
            elif kind == "start":
                if not consumer_idle():
                    return  # single-consumer queue: a second concurrent consumer would be misuse
                st["cid"] += 1
                t = sim.loop.create_task((consumer_for if op[3] else consumer)(st["cid"], op[1], op[2]))
                st["consumer"] = t
                t.add_done_callback(on_consumer_done)
            elif kind == "intrude":
                c = st["consumer"]
                if c is not None and not c.done() and st["in_recv"]:
                    coro = q.__anext__()
                    try:
                        coro.send(None)
                    except AssertionError:
                        sim.stats["fault:second_receive_rejected"] += 1
                        sim.event("second-receive-rejected")
                    except BaseException:  # noqa: BLE001
                        st["void"] = True
                    else:
                        coro.close()
                        st["void"] = True
                    if st.get("void"):
                        # the queue let a second consumer in: the property's precondition (single consumer) no longer holds
                        sim.stats["void_second_consumer_accepted"] += 1
                        sim.abort = True  # (the loop stops at its next iteration; nothing of this run is judged)
                        return
            elif kind == "cancel_recv":
                c = st["consumer"]
                if c is not None and not c.done():
                    st["harness_cancel"].add(c)
                    if st["in_recv"]:
                        sim.stats["fault:cancel_pending_receive"] += 1
                        sim.nontrivial = True
                        if st["handed"]:
                            sim.stats["cancel_after_handoff_same_iteration"] += 1
                    else:
                        sim.stats["fault:cancel_consumer_between_receives"] += 1
                    c.cancel()

        def on_consumer_done(t):
            if t.cancelled():
                return
            exc = t.exception()
            if exc is not None:
                from sim.loop import SimStop
                if not isinstance(exc, SimStop):
                    sim.harness_error(f"consumer failed: {exc!r}")

        async def main():
            holder["q"] = AsyncQueue(*init_vals)
            done = sim.loop.create_future()
            chain = {"selected": 0, "ran": 0}

            def bump():
                chain["selected"] += 1

            for i, op in enumerate(ops):
                def elig(i=i, op=op):
                    # ops are noticed in program order; a consumer may only start when the previous
                    # one is gone (the queue supports a single consumer)
                    if chain["selected"] != i:
                        return False
                    if i == len(ops) - 1 and (chain["ran"] != i or not consumer_idle()):
                        return False  # the draining consumer starts when the previous one is gone
                    return True

                def fire(i=i, op=op):
                    do(op)
                    chain["ran"] = i + 1
                    if i + 1 == len(ops):
                        st["consumer"].add_done_callback(lambda _t: done.done() or done.set_result(None))

                sim.external(f"op{i}:{op[0]}", fire, eligible=elig, on_select=bump)
            await done

        outcome = sim.run(main)
        if st.get("void"):
            sim.violation = None  # the single-consumer precondition was given up by the queue itself: unjudged
            return
        if sim.violation is not None or sim.harness_errors:
            return
        if outcome == "deadlock":
            c = st["consumer"]
            sim.fail_post("hang", "the last consumer never observed the finish reason: receive still pending at quiescence "
                          f"(finished={st['finished']}, accepted={st['accepted']}, received={st['received']})")
            return
        if outcome != "ok":
            return
        if sim.main.exception() is not None:
            sim.harness_error(f"main failed: {sim.main.exception()!r}")
            return
        if not st["reason_seen"]:
            sim.fail_post("no-reason", "the draining consumer ended without observing the finish reason")
        elif st["received"] != st["accepted"]:
            sim.fail_post("lost", f"accepted {st['accepted']} but received {st['received']}", how="final")
        if sim.loop_errors:
            sim.fail_post("loop-error", f"loop exception handler called: {sim.loop_errors[:2]}")


from sim.prop import with_eager  # noqa: E402

C17.tiers = with_eager(C17.tiers, [('default', 100000)])
PROPS = {"C17": C17()}
