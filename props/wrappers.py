"""C18 - asynchronous, wrap_async, traced are transparent and carry the caller context (DESIGN 4, C18).

``loop.run_in_executor`` is routed to baton-passed real threads: the scheduler decides when the worker
runs relative to loop tasks, and the function under test can park mid-function (``thread_yield``) for a
drawn number of scheduler events while a heartbeat task keeps running on the loop.
"""
import asyncio
import threading

from props.common import Injected, InjectedBase, InjectedRuntime, Obj
from props.scopes import capture, family, make_state
from sim import threads
from sim.loop import SimStop
from sim.prop import Prop

KINDS = ("asynchronous", "asynchronous()", "asynchronous(executor)", "asynchronous(loop,executor)",
         "asynchronous-method", "asynchronous(executor)-method", "wrap_async-sync", "wrap_async-async",
         "traced-sync", "traced-async")
SHAPES = ("f(a, b=2)", "f(*args, **kwargs)", "f(a, /, b, *, c=3)")


_BodyMetric = None


class C18(Prop):
    id = "C18"
    level = "exploration"
    tiers = {"quick": [("plain", 72000)], "thorough": [("plain", 1440000)]}
    rule_text = (
        "one case = wrapper kind (asynchronous bare / called / with explicit executor / with explicit loop, on functions and "
        "methods; wrap_async of sync and async functions; traced sync/async) x signature shape (positional, keyword, defaults, "
        "*args/**kwargs, positional-only/keyword-only) x outcome (value/exception) x call site (0..3 nested scopes/updates) x "
        "whether the function leaks a ctx.updated() it never exits + schedule (when the worker thread runs and for how many "
        "scheduler events it stays parked relative to a heartbeat task); distinct = event-log digest incl. program; "
        "non-trivial = the worker was parked at least once, or the call site is nested in a scope"
    )
    components = {
        "real": ["haiway.helpers.asynchrony (asynchronous, wrap_async), haiway.helpers.tracing.traced, haiway.utils.mimic (unmodified)",
                 "real threading.Thread workers (baton-passed: one runs at a time)", "contextvars"],
        "stub": ["event loop (SimLoop)", "thread pool (SimExecutor: the scheduler decides hand-over points)",
                 "wrapped functions, heartbeat task"],
    }

    def sim_options(self, profile):
        return {"max_boundaries": 3000}

    def execute(self, sim, profile):
        from haiway import MissingContext, MissingState, asynchronous, cache, ctx, retry, throttle, timeout, traced, wrap_async
        from haiway.helpers.tracing import ArgumentsTrace, ResultTrace

        s = sim.source
        fam = family()
        T0 = fam["types"][0]
        kind = KINDS[s.draw(len(KINDS), "kind")]
        shape = s.draw(3, "shape")
        raises = s.weighted((4, 2, 1, 1), "raises")  # 0 value, 1 Exception, 2 BaseException subclass, 3 RuntimeError subclass
        awaitable_result = (not raises) and s.chance(1, 4, "awaitable-result")
        fn_spawns = kind.startswith("traced") and s.chance(1, 3, "fn-spawns")
        # the same wrapper object is used again from a second event loop (asyncio.run twice)
        second_loop = ("loop," not in kind) and not fn_spawns and s.chance(1, 5, "second-loop")
        # fault: the executor was shut down before the call - submission is refused, the function must not run at all
        executor_shut = kind.startswith("asynchronous") and s.chance(1, 8, "executor-shut-down")
        if executor_shut:
            second_loop = False
        # an async function that went through `traced` is still an async function: wrap_async must hand it back unchanged
        through_wrap_async = kind == "traced-async" and s.chance(1, 2, "traced-through-wrap-async")
        depth = s.draw(4, "depth")
        nest = [s.draw(2, "nest-kind") for _ in range(depth)]
        leak = bool(s.draw(2, "leak"))
        parks = s.weighted((2, 2, 1, 1), "parks")
        beats = 1 + s.draw(4, "beats")
        form = s.draw(3, "call-form")
        sim.program = {"kind": kind, "shape": SHAPES[shape], "raises": raises, "awaitable_result": int(awaitable_result),
                       "nesting": nest, "leak": leak, "function_spawns_a_task": int(fn_spawns), "called_again_on_a_second_event_loop": int(second_loop),
                       "parks": parks, "heartbeats": beats, "call_form": form, "executor_shut_down_before_call": int(executor_shut),
                       "traced_then_wrap_async": int(through_wrap_async)}
        if depth:
            sim.nontrivial = True
        cap = capture()
        default_ex = threads.SimExecutor("default")
        explicit_ex = threads.SimExecutor("explicit")
        jobs = threads.install(sim, default_ex)
        if executor_shut:
            (explicit_ex if "executor" in kind else default_ex).shut = True
        loop_thread = threading.get_ident()
        class AwaitableResult:
            """A result that happens to be awaitable: it must be handed over as it is, not awaited."""
            awaited = 0

            def __await__(self):
                AwaitableResult.awaited += 1
                return iter(())

        result_obj = AwaitableResult() if awaitable_result else Obj("result")
        exc_obj = {2: InjectedBase, 3: InjectedRuntime}.get(raises, Injected)("boom")
        cause_obj = Injected("the cause")
        exc_obj.__cause__ = cause_obj  # as left by `raise X from Y` inside the function
        seen = {"calls": 0, "thread": None, "args": None, "state": None, "parked": 0, "beats_while_parked": 0}
        hb = {"n": 0, "parked_now": False}
        is_method = kind.endswith("-method")
        # two instances of the class call the method concurrently (both coroutines are created before either starts)
        second_instance = bool(is_method and s.draw(2, "second-instance"))
        # the second instance may be a shallow copy of the first one (copy.copy clones its __dict__) made after the method was used
        second_is_copy = bool(second_instance and s.draw(2, "second-is-copy"))
        # the method is overridden in a subclass (also @asynchronous); the parent's version is reached through super() first
        inherit = bool(is_method and not second_instance and s.chance(1, 3, "overridden-in-subclass"))
        seen["receivers"] = {}
        uses_thread = kind.startswith("asynchronous")
        expect_state = {"inst": None}

        from haiway import State

        global _BodyMetric
        if _BodyMetric is None:
            class BodyMetric(State):
                n: int = 0
            _BodyMetric = BodyMetric
        BodyMetric = _BodyMetric

        def body(args, kwargs):
            seen["calls"] += 1
            # the function records a metric: it runs in (a copy of) the caller's context, so it lands in the caller's scope - also
            # when the body runs on a worker thread
            ctx.record(BodyMetric(n=1), merge=lambda lhs, rhs: BodyMetric(n=lhs.n + rhs.n))
            seen["thread"] = threading.get_ident()
            seen["args"] = (args, dict(kwargs))
            sim.event("fn-body", seen["calls"])
            try:
                seen["state"] = ("inst", ctx.state(T0))
            except MissingContext:
                seen["state"] = ("nocontext", None)
            except MissingState:
                seen["state"] = ("missing", None)
            if fn_spawns:
                # the function starts a background task of the *caller's* scope and returns without waiting for it
                async def background():
                    seen["bg"] = "started"
                    try:
                        forced = await sim.gate("bg", held=True)
                        seen["bg"] = "forced" if forced else "released"
                    except asyncio.CancelledError:
                        seen["bg"] = "cancelled"
                        raise
                seen["bg"] = "spawned"
                ctx.spawn(background)
            if leak:
                try:
                    ctx.updated(make_state(0, 777)).__enter__()
                except BaseException as exc:  # noqa: BLE001
                    seen["leak_error"] = exc
            if uses_thread:
                for _ in range(parks):
                    hb["parked_now"] = True
                    ok = threads.thread_yield()
                    hb["parked_now"] = False
                    if ok:
                        seen["parked"] += 1
            if raises:
                raise exc_obj
            return result_obj

        if shape == 0:
            def f(a, b=2):
                """doc of f"""
                return body((a, b), {})

            async def af(a, b=2):
                """doc of f"""
                return body((a, b), {})

            def m(self, a, b=2):
                """doc of f"""
                seen["receivers"][getattr(self, "expected", "?")] = getattr(self, "label", "?")
                return body((a, b), {})
            calls = [((1,), {}), ((1, 5), {}), ((1,), {"b": 7})]
            bound = [((1, 2), {}), ((1, 5), {}), ((1, 7), {})]
        elif shape == 1:
            def f(*args, **kwargs):
                """doc of f"""
                return body(args, kwargs)

            async def af(*args, **kwargs):
                """doc of f"""
                return body(args, kwargs)

            def m(self, *args, **kwargs):
                """doc of f"""
                seen["receivers"][getattr(self, "expected", "?")] = getattr(self, "label", "?")
                return body(args, kwargs)
            calls = [((), {}), ((1, "x"), {}), ((1,), {"k": 3, "z": None})]
            bound = [((), {}), ((1, "x"), {}), ((1,), {"k": 3, "z": None})]
        else:
            def f(a, /, b, *, c=3):
                """doc of f"""
                return body((a, b), {"c": c})

            async def af(a, /, b, *, c=3):
                """doc of f"""
                return body((a, b), {"c": c})

            def m(self, a, /, b, *, c=3):
                """doc of f"""
                seen["receivers"][getattr(self, "expected", "?")] = getattr(self, "label", "?")
                return body((a, b), {"c": c})
            calls = [((1, 2), {}), ((1,), {"b": 4}), ((1, 2), {"c": 9})]
            bound = [((1, 2), {"c": 3}), ((1, 4), {"c": 3}), ((1, 2), {"c": 9})]
        f.__name__ = af.__name__ = m.__name__ = "fname"
        if inherit:
            m.__name__ = "m"  # (the usual case: the function is named like the attribute it is stored under)
        call_args, call_kwargs = calls[form]
        want_args = bound[form]

        def make_child(base, decorate):
            def override(self, *a, **k):
                seen["override"] = seen.get("override", 0) + 1
                return m(self, *a, **k)
            override.__name__ = m.__name__
            override.__doc__ = m.__doc__
            seen["override_fn"] = override
            return type("Child", (base,), {"m": decorate(override)})

        original = f
        if kind == "asynchronous":
            wrapped = asynchronous(f)
        elif kind == "asynchronous()":
            wrapped = asynchronous()(f)
        elif kind == "asynchronous(executor)":
            wrapped = asynchronous(executor=explicit_ex)(f)
        elif kind == "asynchronous(loop,executor)":
            wrapped = asynchronous(loop=sim.loop, executor=explicit_ex)(f)
        elif kind == "asynchronous-method":
            original = m
            Host = type("Host", (), {"m": asynchronous(m), "__eq__": lambda a, b: type(a) is type(b),
                                     "__hash__": lambda a: 11})  # receivers are value-equal but distinct objects
            if inherit:
                Host = make_child(Host, asynchronous)
            first_host = Host()
            first_host.label = "first"
            wrapped = first_host.m
        elif kind == "asynchronous(executor)-method":
            original = m
            Host = type("Host", (), {"m": asynchronous(executor=explicit_ex)(m), "__eq__": lambda a, b: type(a) is type(b),
                                     "__hash__": lambda a: 11})
            if inherit:
                Host = make_child(Host, asynchronous(executor=explicit_ex))
            first_host = Host()
            first_host.label = "first"
            wrapped = first_host.m
        elif kind == "wrap_async-sync":
            wrapped = wrap_async(f)
        elif kind == "wrap_async-async":
            original = af
            wrapped = wrap_async(af)
        elif kind == "traced-sync":
            wrapped = traced(f)
        else:
            original = af
            wrapped = wrap_async(traced(af)) if through_wrap_async else traced(af)

        # metadata of every helper decorator (static part of the property)
        async def meta_async(x):
            """meta doc"""
            return x

        def meta_sync(x):
            """meta doc"""
            return x

        async def nodoc_async(x):
            return x

        def multiline_sync(x):
            """First line.

                indented continuation, kept exactly as written   
            """
            return x

        async def multiline_async(x):
            """First line.

                indented continuation, kept exactly as written   
            """
            return x

        def nodoc_sync(x):
            return x

        products = {
            kind: (wrapped if not is_method else type(wrapped.__self__ if hasattr(wrapped, "__self__") else object), original),
        }
        metas = [
            ("cache-sync", cache(meta_sync), meta_sync), ("cache-async", cache(meta_async), meta_async),
            ("cache(limit)", cache(limit=2)(meta_sync), meta_sync),
            ("retry-sync", retry(meta_sync), meta_sync), ("retry-async", retry(limit=2)(meta_async), meta_async),
            ("throttle", throttle(meta_async), meta_async), ("timeout", timeout(1)(meta_async), meta_async),
            ("asynchronous", asynchronous(meta_sync), meta_sync), ("wrap_async", wrap_async(meta_sync), meta_sync),
            ("traced-sync", traced(meta_sync), meta_sync), ("traced-async", traced(meta_async), meta_async),
        ]
        metas += [
            ("cache-multiline", cache(multiline_sync), multiline_sync), ("retry-multiline", retry(multiline_async), multiline_async),
            ("throttle-multiline", throttle(multiline_async), multiline_async), ("timeout-multiline", timeout(1)(multiline_async), multiline_async),
            ("traced-multiline", traced(multiline_sync), multiline_sync), ("asynchronous-multiline", asynchronous(multiline_sync), multiline_sync),
            ("wrap_async-multiline", wrap_async(multiline_sync), multiline_sync),
            ("cache-nodoc", cache(nodoc_sync), nodoc_sync), ("cache-async-nodoc", cache(nodoc_async), nodoc_async),
            ("retry-nodoc", retry(nodoc_async), nodoc_async), ("throttle-nodoc", throttle(nodoc_async), nodoc_async),
            ("timeout-nodoc", timeout(1)(nodoc_async), nodoc_async), ("asynchronous-nodoc", asynchronous(nodoc_sync), nodoc_sync),
            ("wrap_async-nodoc", wrap_async(nodoc_sync), nodoc_sync), ("traced-nodoc", traced(nodoc_sync), nodoc_sync),
        ]
        class MetaHost:
            @asynchronous
            def am(self, x):
                """am doc"""
                return x

            @cache
            def cm(self, x):
                """cm doc"""
                return x

            @asynchronous
            def am_nodoc(self, x):
                return x

            @cache
            def cm_nodoc(self, x):
                return x

            @cache(limit=2)
            async def acm_nodoc(self, x):
                return x

            @cache(limit=2)
            async def acm(self, x):
                """acm doc"""
                return x

        host_obj = MetaHost()
        metas += [("asynchronous-bound-method", host_obj.am, MetaHost.__dict__["am"].__wrapped__),
                  ("cache-bound-method", host_obj.cm, MetaHost.__dict__["cm"].__wrapped__)]
        metas += [(f"{'asynchronous' if n.startswith('am') else 'cache'}-bound-method-{n}", getattr(host_obj, n), MetaHost.__dict__[n].__wrapped__)
                  for n in ("am_nodoc", "cm_nodoc", "acm_nodoc", "acm")]
        metas += [("cache-builtin", cache(len), len), ("retry-builtin", retry(len), len), ("traced-builtin", traced(len), len)]
        if not is_method:
            metas.append((kind, wrapped, original))
        for label, prod, orig in metas:
            if prod is orig:
                continue
            for attr in ("__name__", "__doc__"):
                if getattr(prod, attr, None) != getattr(orig, attr):
                    sim.fail("metadata", f"{label}: {attr} of the wrapped function is {getattr(prod, attr, None)!r}, original {getattr(orig, attr)!r}",
                             decorator=label.split("-")[0].split("(")[0], attr=attr)
            if getattr(prod, "__wrapped__", None) is not orig:
                sim.fail("metadata", f"{label}: __wrapped__ is {getattr(prod, '__wrapped__', None)!r}, not the original function",
                         decorator=label.split("-")[0].split("(")[0], attr="__wrapped__")

        completions = []

        def completion(metrics):
            completions.append(metrics)

        out = {}

        async def heartbeat():
            for _ in range(beats):
                await sim.pause("hb")
                hb["n"] += 1
                if hb["parked_now"]:
                    seen["beats_while_parked"] += 1
                    sim.stats["heartbeat_while_worker_parked"] += 1

        def caller_state():
            try:
                return ("inst", ctx.state(T0))
            except MissingContext:
                return ("nocontext", None)
            except MissingState:
                return ("missing", None)

        async def call_site(level):
            if level < depth:
                st = make_state(0, 10 + level)
                if nest[level] == 0:
                    async with ctx.scope(f"site{level}", st):
                        expect_state["inst"] = st
                        await call_site(level + 1)
                else:
                    with ctx.updated(st):
                        expect_state["inst"] = st
                        await call_site(level + 1)
                return
            before = caller_state()
            out["before"] = before
            try:
                if kind == "traced-sync":
                    r = wrapped(*call_args, **call_kwargs)
                elif second_instance:
                    if second_is_copy:
                        import copy
                        other = copy.copy(first_host)
                        sim.stats["second_instance_is_shallow_copy"] += 1
                    else:
                        other = Host()
                    other.label = "second"
                    # which receiver each call is expected to run on is noted on the instance just before the call is made
                    first_host.expected, other.expected = "first", "second"
                    c1 = first_host.m(*call_args, **call_kwargs)
                    c2 = other.m(*call_args, **call_kwargs)
                    r, r2 = await asyncio.gather(c1, c2, return_exceptions=True)
                    if isinstance(r, BaseException):
                        raise r
                elif inherit:
                    await super(type(first_host), first_host).m(*call_args, **call_kwargs)  # the parent's implementation, legally
                    seen["override_before"] = seen.get("override", 0)
                    r = await first_host.m(*call_args, **call_kwargs)  # must be the override again
                else:
                    r = await wrapped(*call_args, **call_kwargs)
            except SimStop:
                raise
            except BaseException as exc:  # noqa: BLE001
                out["kind"], out["obj"] = "raised", exc
            else:
                out["kind"], out["obj"] = "value", r
            out["after"] = caller_state()
            out["bg_at_return"] = seen.get("bg")
            sim.event("call-done", out["kind"])

        async def main():
            hb_task = sim.loop.create_task(heartbeat())
            async with ctx.scope("root", make_state(0, 1), completion=completion):
                expect_state["inst"] = None
                await call_site(0)
            await asyncio.wait([hb_task])

        out2 = {}

        async def main2():
            async with ctx.scope("root2", make_state(0, 2)):
                try:
                    if kind == "traced-sync":
                        r = wrapped(*call_args, **call_kwargs)
                    else:
                        r = await wrapped(*call_args, **call_kwargs)
                except SimStop:
                    raise
                except BaseException as exc:  # noqa: BLE001
                    out2["kind"], out2["obj"] = "raised", exc
                else:
                    out2["kind"], out2["obj"] = "value", r

        # the outermost state of the call site (root scope supplies T0(v=1))
        outcome = sim.run(main)
        if second_loop and outcome == "ok" and sim.violation is None and not sim.harness_errors and sim.main.exception() is None:
            first_calls = seen["calls"]
            snapshot, jobs_first = dict(seen), len(jobs)
            sim.next_loop()
            outcome = sim.run(main2)
            if outcome == "ok" and sim.main.exception() is None:
                want2 = ("raised", exc_obj) if raises else ("value", result_obj)
                if out2.get("kind") != want2[0] or out2.get("obj") is not want2[1]:
                    sim.fail_post("outcome", f"{kind}: called again from a second event loop the caller got {out2.get('kind')} "
                                  f"{out2.get('obj')!r}, the function produced {want2[0]} {want2[1]!r}", kind=kind,
                                  got=type(out2.get("obj")).__name__, second_loop=1)
                    return
                if seen["calls"] != first_calls + 1:
                    sim.fail_post("call-count", f"{kind}: second call (second event loop) ran the body {seen['calls'] - first_calls} times",
                                  kind=kind, second_loop=1)
                    return
                # the remaining rules judge the first call
                seen.clear()
                seen.update(snapshot)
                del jobs[jobs_first:]
        if sim.violation is not None or sim.harness_errors:
            return
        if outcome == "deadlock":
            sim.fail_post("hang", f"call through {kind} never completed")
            return
        if outcome != "ok":
            return
        exc = sim.main.exception()
        if exc is not None:
            sim.harness_error(f"main failed: {exc!r}")
            return
        if executor_shut:
            # the pool refused the job: that error is the call's outcome and the function never ran (in particular not inline on the loop)
            if seen["calls"]:
                sim.fail_post("ran-without-executor", f"{kind}: the executor was shut down but the function body ran {seen['calls']} time(s) "
                              f"({'on the event-loop thread' if seen['thread'] == loop_thread else 'on another thread'})", kind=kind)
            elif out.get("kind") != "raised" or not isinstance(out.get("obj"), RuntimeError):
                sim.fail_post("outcome", f"{kind}: the executor refused the job but the caller got {out.get('kind')} {out.get('obj')!r}",
                              kind=kind, got=type(out.get("obj")).__name__)
            return
        # transparency
        want = ("raised", exc_obj) if raises else ("value", result_obj)
        if out.get("kind") != want[0] or out.get("obj") is not want[1]:
            sim.fail_post("outcome", f"{kind}: caller got {out.get('kind')} {out.get('obj')!r}, function produced {want[0]} {want[1]!r}",
                          kind=kind, got=type(out.get("obj")).__name__)
            return
        if raises and (out["obj"].__cause__ is not cause_obj or not out["obj"].__suppress_context__):
            sim.fail_post("exception-chain", f"{kind}: the raised exception arrived with __cause__={out['obj'].__cause__!r} "
                          f"(function raised it `from` {cause_obj!r})", kind=kind)
            return
        if inherit and not raises:
            if seen.get("override_before", 0) != 0 or seen.get("override", 0) != 1:
                sim.fail_post("override-bypassed", f"{kind}: a subclass overrides the method; after super().m(...) the call self.m(...) ran the "
                              f"override {seen.get('override', 0)} time(s) (and super() ran it {seen.get('override_before', 0)} time(s))", kind=kind)
                return
        if seen["calls"] != 1 + int(second_instance) + int(inherit and not raises):
            sim.fail_post("call-count", f"{kind}: function body ran {seen['calls']} times", kind=kind)
            return
        if second_instance:
            if seen["receivers"] != {"first": "first", "second": "second"}:
                sim.fail_post("wrong-receiver", f"{kind}: two instances called their method concurrently; the calls ran on receivers "
                              f"{seen['receivers']} (call -> receiver)", kind=kind)
                return
        if completions and not second_loop:
            got_n = sum(x.n for x in completions[0].metrics(merge=lambda cur, new: new if not isinstance(new, BodyMetric) or not isinstance(cur, BodyMetric)
                                                            else BodyMetric(n=cur.n + new.n)) if isinstance(x, BodyMetric))
            if got_n != seen["calls"]:
                sim.fail_post("metric-from-function-lost", f"{kind}: the function body recorded a metric {seen['calls']} time(s) (on "
                              f"{'a worker thread' if uses_thread else 'the loop thread'}); the caller's scope tree holds {got_n}", kind=kind)
                return
        if seen["args"] != (want_args[0], want_args[1]):
            sim.fail_post("arguments", f"{kind}: function received {seen['args']}, call was {call_args} {call_kwargs} "
                          f"(expected binding {want_args})", kind=kind)
            return
        # thread
        if uses_thread:
            if seen["thread"] == loop_thread:
                sim.fail_post("ran-on-loop-thread", f"{kind}: the function ran on the event-loop thread", kind=kind)
                return
            want_ex = explicit_ex if "executor" in kind else default_ex
            if not jobs or any(j.executor is not want_ex for j in jobs) or len(jobs) != 1 + int(second_instance) + int(inherit and not raises):
                sim.fail_post("wrong-executor", f"{kind}: ran on {[j.executor.name for j in jobs]}, expected {want_ex.name}", kind=kind)
                return
            if seen["parked"]:
                sim.nontrivial = True
                sim.stats["worker_parked"] += seen["parked"]
        else:
            if seen["thread"] != loop_thread:
                sim.fail_post("unexpected-thread", f"{kind}: function ran off the loop thread", kind=kind)
                return
        # context carried in, nothing leaked out
        inner = out["before"]
        if seen["state"] is None or seen["state"][0] != inner[0] or seen["state"][1] is not inner[1]:
            sim.fail_post("context-not-carried", f"{kind}: inside the function ctx.state(T0) gave {seen['state']}, the caller sees {inner}",
                          kind=kind, got=seen["state"][0] if seen["state"] else "none")
            return
        after = out["after"]
        # (only the executor wrappers promise isolation: wrap_async / traced call the function in the caller's task)
        if uses_thread and (after[0] != inner[0] or after[1] is not inner[1]):
            sim.fail_post("context-leaked", f"{kind}: after the call the caller sees T0 = {after}, before the call {inner} (leak={leak})",
                          kind=kind)
            return
        if fn_spawns and out.get("bg_at_return") in ("forced", "cancelled", "released"):
            sim.fail_post("waited-for-spawned-task", f"{kind}: the call only returned after the task the function had spawned into the "
                          f"caller's scope was {out['bg_at_return']}", kind=kind)
            return
        # traced: a nested scope named after the function with arguments and outcome
        if kind.startswith("traced"):
            if not completions:
                sim.fail_post("traced-no-completion", "root scope never completed")
                return
            merged = completions[0].metrics(merge=lambda cur, new: new)
            args_tr = [m for m in merged if isinstance(m, ArgumentsTrace)]
            res_tr = [m for m in merged if isinstance(m, ResultTrace)]
            if not __debug__:
                # the statement says "traced (in debug mode)": with assertions stripped (python -O) tracing is switched off
                if args_tr or res_tr:
                    sim.fail_post("traced-metrics", f"traced outside debug mode recorded {merged!r}")
                return
            if len(args_tr) != 1 or len(res_tr) != 1:
                sim.fail_post("traced-metrics", f"traced: merged metrics hold {merged!r}")
                return
            a = args_tr[0]
            got_args = tuple(a.args) if isinstance(a.args, (tuple, list)) else ()
            got_kwargs = dict(a.kwargs) if hasattr(a.kwargs, "items") else {}
            if got_args != tuple(call_args) or got_kwargs != dict(call_kwargs):
                sim.fail_post("traced-arguments", f"traced recorded args={a.args!r} kwargs={a.kwargs!r}, call was {call_args} {call_kwargs}")
                return
            if res_tr[0].result is not want[1]:
                sim.fail_post("traced-result", f"traced recorded result {res_tr[0].result!r}, outcome was {want[1]!r}")
                return
            names = [r for r in cap.records if "[fname]" in r[2] and "Started" in r[2]]
            if not names:
                sim.fail_post("traced-scope-name", "no scope named after the function was entered (no '[fname] ... Started' log line)")
                return
        if sim.loop_errors:
            sim.fail_post("loop-error", f"loop exception handler called: {sim.loop_errors[:2]}")


from sim.prop import with_eager  # noqa: E402

C18.tiers = with_eager(C18.tiers, [('plain', 20000)])
PROPS = {"C18": C18()}
