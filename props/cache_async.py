"""C13 - async cache shares one in-flight call; cancelling a waiter harms no one else.

2..4 caller tasks over 1..2 keys start at scheduler-chosen loop iterations; the wrapped coroutine
waits on a gate (plain or *held*), so whether a caller arrives before/after the start and before/after
the end of the invocation is the scheduler's choice.  Faults: cancel of any caller (random instants,
or swept over every iteration of the fault-free twin), eviction in flight (limit=1 + other key),
clock jump past the expiration in flight.  Oracle: shared-invocation model evaluated at the instant
of each arrival (the harness observes synchronously whether the arrival created an invocation).
"""
from __future__ import annotations

import asyncio
import inspect

from props.common import Injected, Obj
from sim.loop import GRID
from sim.prop import Prop, sweep_expand

EPS = 1e-9


class FirstStep:
    """Awaitable that runs ``after()`` right after the first step of ``coro`` (transparent otherwise)."""

    def __init__(self, coro, after, before=None):
        self.coro = coro
        self.after = after
        self.before = before

    def __await__(self):
        it = self.coro.__await__()
        if self.before is not None:
            self.before()
        try:
            y = it.send(None)
        except StopIteration as e:
            self.after()
            return e.value
        except BaseException:
            self.after()
            raise
        self.after()
        while True:
            try:
                sent = yield y
            except BaseException as exc:  # noqa: BLE001
                try:
                    y = it.throw(exc)
                except StopIteration as e:
                    return e.value
            else:
                try:
                    y = it.send(sent)
                except StopIteration as e:
                    return e.value


class C13(Prop):
    id = "C13"
    level = "fault_enumeration"
    tiers = {
        "quick": [("share", 120000), ("cancel", 120000), ("sweep", 10000)],
        "thorough": [("share", 2400000), ("cancel", 2400000), ("sweep", 200000), ("share-deep", 300000), ("cancel-deep", 300000), ("sweep-deep", 15000)],
    }
    rule_text = (
        "one case = 2..6 callers over 1..3 keys (function or method flavour), limit 1..2, expiration none/1s, invocation "
        "gates plain or held, invocation outcome value/exception, optional clock jump past expiry and other-key call "
        "(eviction) in flight + schedule (arrival iteration of every caller, gate release order, cancel instants); "
        "'sweep' injects one cancel of a drawn caller at EVERY loop iteration of the fault-free twin; distinct = "
        "distinct event-log digest; non-trivial = at least one caller shared an in-flight invocation, or a cancel "
        "landed on a waiting caller, or an entry was evicted/expired while its invocation was in flight"
    )
    components = {
        "real": ["haiway.helpers.caching._AsyncCache (unmodified)", "asyncio.shield / Task / Future (CPython)"],
        "stub": ["event loop + time.monotonic (SimLoop)", "wrapped coroutine (gated double), callers"],
    }

    def sim_options(self, profile):
        return {"max_boundaries": 4000}

    def expand(self, seed, profile, run, sample):
        from sim.source import Source
        if profile.removesuffix("-deep") == "sweep":
            return sweep_expand(self, seed, profile, run, sample)
        return run(Source(seed), sample)

    def execute(self, sim, profile):
        from haiway import cache

        s = sim.source
        method = bool(s.draw(2, "method"))
        deep = profile.endswith("-deep")
        profile = profile.removesuffix("-deep")
        n_callers = (4 + s.draw(6, "ncallers")) if deep else (2 + s.weighted((3, 3, 2, 1, 1), "ncallers"))
        n_keys = 1 + (s.draw(4, "nkeys") if deep else s.weighted((3, 2, 1), "nkeys"))
        scoped = [s.chance(1, 3, "caller-in-scope") for _ in range(n_callers)]
        limit = 1 + (s.draw(3, "limit") if deep else s.weighted((3, 2), "limit"))
        exp_steps = (None, 1024)[s.weighted((2, 1), "exp")]
        expiration = None if exp_steps is None else exp_steps * GRID
        callers = [{"key": s.draw(n_keys, "key"),
                    # a call that does not bind (unknown keyword): the wrapped function raises TypeError when invoked
                    "bad_call": int(s.chance(1, 10, "bad-call"))} for _ in range(n_callers)]
        inv_specs = [{"held": bool(s.draw(2, "held")), "raises": s.chance(1, 5, "inv-raises"),
                      # the invocation may end cancelled by itself (something it awaited was cancelled)
                      "self_cancel": s.chance(1, 8, "inv-self-cancel")}
                     for _ in range(n_callers + 2)]
        jumps = []
        if exp_steps is not None:
            for _ in range(s.weighted((2, 2, 1), "njumps")):
                jumps.append(exp_steps + (1, 64, -1, -64)[s.draw(4, "jump")])
        cancels = []
        if profile == "cancel":
            for _ in range(1 + s.weighted((3, 2, 1), "ncancel")):
                cancels.append(s.draw(n_callers, "victim"))
        victim = s.draw(n_callers, "sweep-victim") if profile == "sweep" else None
        for c_, sc in zip(callers, scoped):
            c_["in_scope"] = int(sc)
        sim.program = {"method": method, "callers": callers, "limit": limit, "expiration_steps": exp_steps,
                       "invocations": inv_specs, "clock_jumps": jumps, "cancel_victims": cancels,
                       "sweep_victim": victim, "cancel_at_iteration": sim.inject_choice if profile == "sweep" else 0}

        from haiway import MissingContext, State, ctx

        class CallerTag(State):
            value: int = -1

        def visible_tag():
            try:
                return ctx.state(CallerTag).value
            except MissingContext:
                return "no-context"

        arriving = {"caller": None, "tag": None}
        invs = []  # per invocation: dict
        kwargs = {"limit": limit}
        if expiration is not None:
            kwargs["expiration"] = expiration

        def start_invocation(key):
            n = len(invs)
            spec = inv_specs[min(n, len(inv_specs) - 1)]
            rec = {"n": n, "key": key, "t": sim.now, "done": False, "result": Obj(("inv", n)),
                   "exc": Injected(("inv", n)), "raises": spec["raises"], "cancel_seen": False, "started": False}
            invs.append(rec)
            sim.event("invocation-created", n, key)
            # the invocation is a task the library starts on behalf of the arriving caller: it sees that caller's state
            rec["starter"], rec["starter_tag"] = arriving["caller"], arriving["tag"]

            def check_state(when):
                got = visible_tag()
                if got != rec["starter_tag"]:
                    sim.fail("invocation-state", f"invocation {n} (started by caller {rec['starter']}, whose scope state was "
                             f"{rec['starter_tag']!r}) observed {got!r} {when}", got=str(got) if isinstance(got, str) else "other-tag")

            async def body():
                rec["started"] = True
                check_state("when it started")
                try:
                    await sim.gate(f"inv{n}", held=spec["held"])
                except asyncio.CancelledError:
                    rec["cancel_seen"] = True
                    sim.event("invocation-cancelled", n)
                    raise
                finally:
                    rec["done"] = True
                check_state("after its gate opened")
                sim.event("invocation-end", n)
                if spec["self_cancel"]:
                    rec["self_cancelled"] = True
                    raise asyncio.CancelledError()
                if rec["raises"]:
                    raise rec["exc"]
                return rec["result"]

            return body()

        if method:
            class Host:
                @cache(**kwargs)
                @inspect.markcoroutinefunction
                def call(self, key):
                    return start_invocation(key)
            host = Host()

            def cached(key, **kw):
                return host.call(key, **kw)
        else:
            @cache(**kwargs)
            @inspect.markcoroutinefunction
            def cached(key):
                return start_invocation(key)

        model = {}  # key -> [inv n, t_created]; dict order = LRU order (oldest first)
        out = [{"kind": None, "obj": None, "expected": None, "lenient": False, "arrived": False,
                "cancel_ret": None} for _ in range(n_callers)]
        tasks = [None] * n_callers
        flags = {"ambiguous": False}

        async def caller(c):
            key = callers[c]["key"]
            o = out[c]
            o["arrived"] = True
            o["t_arrive"] = sim.now
            sim.event("arrive", c, key)
            before = len(invs)
            e = model.get(key)
            must_share = False
            expired = False
            if e is not None:
                age = sim.now - e[1]
                if expiration is None or age < expiration - EPS:
                    must_share = True
                elif abs(age - expiration) <= EPS:
                    flags["ambiguous"] = True
                else:
                    expired = True
                    if not invs[e[0]]["done"]:
                        sim.stats["expired_in_flight"] += 1
                        sim.nontrivial = True

            def before_first_step():
                arriving["caller"], arriving["tag"] = c, visible_tag()

            def after_first_step():
                created = len(invs) - before
                if callers[c]["bad_call"]:
                    o["bad"] = True
                    sim.stats["call_did_not_bind"] += 1
                    if created:
                        sim.fail("bad-call-invoked", f"caller {c}'s call did not bind but {created} invocation(s) were created")
                    return
                if created > 1:
                    sim.fail("double-invocation", f"arrival of caller {c} created {created} invocations")
                if must_share:
                    if created:
                        sim.fail("not-shared", f"caller {c} arrived for key {key} while invocation {e[0]} (age {sim.now - e[1]}, "
                                 f"in flight={not invs[e[0]]['done']}) was cached and unexpired, but a new invocation was started",
                                 in_flight=not invs[e[0]]["done"])
                    o["expected"] = e[0]
                    if not invs[e[0]]["done"]:
                        sim.stats["shared_in_flight"] += 1
                        sim.nontrivial = True
                    else:
                        sim.stats["shared_completed"] += 1
                    model[key] = model.pop(key)  # touch
                elif created:
                    if invs[before]["key"] != key:
                        sim.fail("wrong-key", f"caller {c} key {key} started an invocation for key {invs[before]['key']}")
                    o["expected"] = before
                    model.pop(key, None)
                    model[key] = [before, sim.now]
                    while len(model) > limit:
                        old_key = next(iter(model))
                        old = model.pop(old_key)
                        if not invs[old[0]]["done"]:
                            sim.stats["evicted_in_flight"] += 1
                            sim.nontrivial = True
                else:
                    # answered without an invocation although the model has no usable entry: judged by safety
                    o["lenient"] = True
                    if expired:
                        o["not_before"] = None
                        o["stale_limit"] = sim.now

            bad_kw = {"no_such_parameter": 1} if callers[c]["bad_call"] else {}
            try:
                if callers[c]["in_scope"]:
                    # the caller works inside its own scope: the shared invocation must not become a task of that scope
                    async with ctx.scope(f"caller{c}", CallerTag(value=c)):
                        r = await FirstStep(cached(key, **bad_kw), after_first_step, before_first_step)
                else:
                    r = await FirstStep(cached(key, **bad_kw), after_first_step, before_first_step)
            except asyncio.CancelledError as exc:
                o["kind"], o["obj"] = "cancelled", exc
            except BaseException as exc:  # noqa: BLE001
                from sim.loop import SimStop
                if isinstance(exc, SimStop):
                    raise
                o["kind"], o["obj"] = "raised", exc
            else:
                o["kind"], o["obj"] = "value", r
            sim.event("caller-outcome", c, o["kind"])

        def do_cancel(c, label):
            t = tasks[c]
            if t is None:
                return
            ret = t.cancel()
            sim.event("cancel-caller", c, ret)
            if ret:
                out[c]["cancel_ret"] = True
                where = "waiting" if out[c]["arrived"] and out[c]["kind"] is None else "before_arrival"
                sim.stats[f"fault:cancel_caller_{where}"] += 1
                if where == "waiting":
                    sim.nontrivial = True

        async def main():
            done = sim.loop.create_future()
            remaining = [n_callers]

            def finished(_t):
                remaining[0] -= 1
                if remaining[0] == 0 and not done.done():
                    done.set_result(None)

            def start(c):
                tasks[c] = sim.loop.create_task(caller(c))
                tasks[c].add_done_callback(finished)

            for c in range(n_callers):
                sim.external(f"start{c}", lambda c=c: start(c))
            for j, steps in enumerate(jumps):
                def jump(steps=steps):
                    sim.loop._now += steps * GRID
                    sim.stats["fault:clock_jump"] += 1
                    sim.event("clock-jump", steps)
                sim.external(f"jump{j}", jump, eligible=lambda: any(t is not None for t in tasks))
            for j, c in enumerate(cancels):
                sim.external(f"cancel{j}", lambda c=c: do_cancel(c, "random"),
                             eligible=lambda c=c: tasks[c] is not None)
            if victim is not None and sim.inject_choice:
                sim.inject(sim.inject_choice, "cancel-caller", lambda: do_cancel(victim, "sweep"))
            await done

        outcome = sim.run(main)
        if sim.violation is not None or sim.harness_errors:
            return
        if outcome == "deadlock":
            stuck = [c for c in range(n_callers) if out[c]["kind"] is None]
            sim.fail_post("hang", f"callers {stuck} never received an outcome")
            return
        if outcome != "ok":
            return
        if sim.main.exception() is not None:
            sim.harness_error(f"main failed: {sim.main.exception()!r}")
            return
        for rec in invs:
            if rec["cancel_seen"]:
                sim.fail_post("invocation-cancelled", f"invocation {rec['n']} observed CancelledError "
                              f"(callers cancelled: {[c for c in range(n_callers) if out[c]['cancel_ret']]})")
                return
            if not rec["done"]:
                sim.fail_post("invocation-pending", f"invocation {rec['n']} still pending at quiescence")
                return
        if flags["ambiguous"]:
            sim.stats["ambiguous_age_equals_expiration"] += 1
        for c in range(n_callers):
            o = out[c]
            if not o["arrived"]:
                continue
            if o["cancel_ret"]:
                if o["kind"] != "cancelled":
                    sim.fail_post("cancel-swallowed", f"caller {c} was cancelled while waiting but ended with {o['kind']} {o['obj']!r}")
                    return
                continue
            if o.get("bad"):
                # the wrapped function rejected the call when invoked: its TypeError is the outcome and the cache is untouched
                if not (o["kind"] == "raised" and isinstance(o["obj"], TypeError)):
                    sim.fail_post("outcome", f"caller {c}'s call did not bind but it received {o['kind']} {o['obj']!r}")
                    return
                continue
            if o["kind"] == "cancelled" and o["expected"] is not None and invs[o["expected"]].get("self_cancelled"):
                continue  # the shared invocation itself ended cancelled: that is its outcome for everybody
            if o["kind"] == "cancelled" and o["expected"] is None and any(r.get("self_cancelled") and r["key"] == callers[c]["key"] for r in invs):
                continue
            if o["kind"] == "cancelled":
                sim.fail_post("cancel-leaked", f"caller {c} was never cancelled but received CancelledError "
                              f"(cancelled callers: {[x for x in range(n_callers) if out[x]['cancel_ret']]})")
                return
            tag = getattr(o["obj"], "tag", None)
            if not (isinstance(tag, tuple) and tag and tag[0] == "inv" and tag[1] < len(invs)):
                sim.fail_post("garbage", f"caller {c} received {o['kind']} {o['obj']!r}, not an outcome of the wrapped function")
                return
            rec = invs[tag[1]]
            want_obj = rec["exc"] if rec["raises"] else rec["result"]
            if o["obj"] is not want_obj or (o["kind"] == "raised") != rec["raises"]:
                sim.fail_post("outcome", f"caller {c} received {o['kind']} {o['obj']!r}, invocation {rec['n']} produced {want_obj!r}")
                return
            if rec["key"] != callers[c]["key"]:
                sim.fail_post("wrong-key", f"caller {c} (key {callers[c]['key']}) received the outcome of invocation {rec['n']} for key {rec['key']}")
                return
            if o["expected"] is not None and rec["n"] != o["expected"] and not flags["ambiguous"]:
                sim.fail_post("wrong-invocation", f"caller {c} should have received the outcome of invocation {o['expected']} "
                              f"but got invocation {rec['n']}")
                return
            if o["lenient"] and expiration is not None and o["t_arrive"] - rec["t"] > expiration + EPS:
                sim.fail_post("stale", f"caller {c} arrived at {o['t_arrive']} and was served invocation {rec['n']} created at {rec['t']} "
                              f"(expiration {expiration})")
                return
        errs = [e for e in sim.loop_errors if "never retrieved" not in e[0]]
        if errs:  # (an unobserved failed invocation is reported by asyncio itself: not the cache's doing)
            sim.fail_post("loop-error", f"loop exception handler called: {errs[:2]}")


from sim.prop import with_eager  # noqa: E402

C13.tiers = with_eager(C13.tiers, [('share', 40000), ('cancel', 40000)])
PROPS = {"C13": C13()}
