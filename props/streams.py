"""C11 - context streams run in their creation context and leave the consumer's intact (DESIGN 5).

A generator spec (items; between items: probe, record, pause, nested sync scope, nested stream; ends
normally or raises) is turned into ``ctx.stream(gen)`` inside scope A and consumed (a) in A, (b) in a
scope B with different state, (c) after A was left (outside any scope), (d) in another task; fully,
with early break + aclose(), with early break + dropped reference (finalizer task, explicit gc event),
or never started.  Faults: generator raise, consumer cancelled during an item fetch.
Rule ids are part of the violation signature so that a listed known finding never masks another rule.
"""
import asyncio
import gc

from props.common import Injected
from props.scopes import capture, family, make_state
from sim.loop import SimStop
from sim.prop import Prop

MODES = ("same-scope", "other-scope", "outside-scope", "other-task")
ENDS = ("exhaust", "break-aclose", "break-drop", "never-started", "break-resume")


class C11(Prop):
    id = "C11"
    gc_before = True  # runs contain explicit gc events: garbage of earlier runs must not be finalised inside them
    level = "exploration"
    tiers = {"quick": [("plain", 180000), ("faults", 90000)], "thorough": [("plain", 3600000), ("faults", 1800000)]}
    rule_text = (
        "one case = generator spec (0..4 items; probe/record/pause/nested sync scope/nested stream between items; normal "
        "end or raise) x creation in scope A x consumption mode {same scope, other scope with different state, outside "
        "any scope, other task} x termination {exhaust, break+aclose, break+drop reference (finalizer), never started, break then a second loop "
        "over the rest} x created directly in A or in a nested scope left before consumption "
        "+ schedule (pauses inside the generator, gc instant, cancel landing); distinct = event-log digest incl. program; "
        "non-trivial = consumed in a context different from the creation context, or abandoned, or a fault fired"
    )
    components = {
        "real": ["haiway.context.access.ctx.stream / ctx.scope (unmodified)", "CPython async generators, asyncgen hooks of BaseEventLoop"],
        "stub": ["event loop (SimLoop)", "gc instant (explicit event)", "generator body, consumer, completion callbacks are harness doubles"],
    }

    def sim_options(self, profile):
        return {"max_boundaries": 3000}

    def execute(self, sim, profile):
        from haiway import MissingContext, MissingState, ctx

        s = sim.source
        fam = family()
        T0, T1, T2 = fam["types"][0], fam["types"][1], fam["types"][2]
        M0, M1 = fam["metrics"]
        mode = MODES[s.draw(4, "mode")]
        end = ENDS[s.weighted((4, 2, 2, 1, 1), "end")]
        n_items = s.draw(5, "items")
        item_kinds = [s.weighted((4, 2, 1, 1, 1, 1), "item-kind") for _ in range(n_items)]
        steps = []
        for i in range(n_items + 1):
            acts = []
            for _ in range(s.weighted((2, 3, 2, 1), "nacts")):
                acts.append(("probe", "record", "pause", "nested-scope", "nested-stream", "spawn")[s.weighted((8, 4, 6, 2, 2, 1), "act")])
            steps.append(acts)
        gen_raises = profile == "faults" and s.chance(1, 3, "gen-raises")
        gen_raise_kind = s.weighted((3, 1, 1), "gen-raise-kind") if gen_raises else 0  # plain, group of one, immutable instance
        cancel_consumer = profile == "faults" and not gen_raises and s.chance(1, 2, "cancel-consumer")
        break_after = s.draw(max(1, n_items), "break-after") if end.startswith("break") else None
        # a second, simple stream created in the same scope and consumed before or after the first one
        pre_cancelled = (not cancel_consumer) and s.chance(1, 6, "pre-cancelled")
        source_kind = s.weighted((4, 1, 1, 1, 1), "source-kind")  # plain async generator function, functools.partial, callable instance, decorated (__wrapped__)
        if source_kind == 4 and end != "exhaust":
            source_kind = 0  # (an iterator object without aclose() cannot be closed early: only exhausted)
        # the consumer may iterate the stream from inside an exception handler of its own (flushing while it fails)
        in_handler = s.chance(1, 6, "consumed-inside-exception-handler")
        second = (mode in ("same-scope", "outside-scope") and end == "exhaust" and not cancel_consumer
                  and s.chance(1, 3, "second-stream"))
        second_first = bool(second and s.draw(2, "second-first"))
        # the stream may be created one level deeper: inside a scope A2 nested in A that is left before the stream is consumed
        depth = 1 + int(s.chance(1, 4, "created-in-nested-scope"))
        def item_value(i):
            # falsy and None items are legitimate elements of a stream
            from haiway import MISSING
            return (("item", i), None, 0, False, "", MISSING)[item_kinds[i]]  # the library's own MISSING is a legal item too

        sim.program = {"mode": mode, "end": end, "items": n_items, "item_kinds": item_kinds, "steps": steps, "gen_raises": gen_raises,
                       "cancel_consumer": cancel_consumer, "break_after": break_after, "second_stream": int(second),
                       "second_consumed_first": int(second_first), "created_in_nested_scope_left_before_consumption": depth - 1, "consumer_swallowed_a_cancel_before": int(pre_cancelled), "consumed_inside_exception_handler": int(in_handler),
                       "source": ("function", "functools.partial", "callable instance", "decorated with functools.wraps", "plain async iterator object")[source_kind]}
        if mode != "same-scope" or end in ("break-drop", "never-started") or gen_raises or cancel_consumer:
            sim.nontrivial = True

        cap = capture()
        a_state, a_t1 = make_state(0, 1), make_state(1, 2)
        b_state, b_t2 = make_state(0, 3), make_state(2, 4)
        a2_state = make_state(0, 5)
        created_state = a2_state if depth == 2 else a_state
        r2_extra = {"created": "nested-scope"} if depth == 2 and mode == "same-scope" else {}
        class FrozenError(Exception):
            """An exception instance that forbids attribute assignment (like a frozen dataclass exception)."""
            __slots__ = ()

            def __setattr__(self, name, value):
                raise AttributeError(f"cannot assign to field {name!r}")

        gen_exc = (Injected("gen"), ExceptionGroup("several", [Injected("gen")]), FrozenError("gen"))[gen_raise_kind]
        sim.program["gen_raise_kind"] = ("plain", "ExceptionGroup of one", "immutable instance")[gen_raise_kind]
        rec_values = []
        nested_values = []
        spawned = []
        st = {"received": [], "outcome": None, "gen_started": False, "gen_closed": False, "completion": [],
              "a_left_seq": None, "stream_done_seq": None, "logn": 0, "consumer_task": None, "in_fetch": False,
              "gen_cancelled": False}

        def feat(with_end=True):
            return {"consumed": mode, "end": end} if with_end else {"consumed": mode}

        def log_probe():
            st["logn"] += 1
            marker = f"hv#{st['logn']}#"
            n0 = len(cap.records)
            ctx.log_info(marker)
            for name, _l, text, _ok, _e in cap.records[n0:]:
                if marker in text:
                    return (name, text[:text.index(marker)])
            return None

        def owner_probe():
            async def noop():
                return None
            try:
                t = ctx.spawn(noop)
            except SimStop:
                raise
            except BaseException:  # noqa: BLE001
                return None
            owner = 0
            for cb, _c in (getattr(t, "_callbacks", None) or ()):
                o = getattr(cb, "__self__", None)
                if isinstance(o, asyncio.TaskGroup):
                    owner = id(o)
            return ("group", owner)

        def state_of(T):
            try:
                return ("inst", ctx.state(T))
            except MissingContext:
                return ("nocontext", None)
            except MissingState:
                return ("missing", None)

        def gen_probe(where, extra=None):
            # R2: the generator observes the state that was current where the stream was created (+ its own frames)
            want0 = extra if extra is not None else created_state
            got = state_of(T0)
            if got[0] != "inst" or got[1] is not want0:
                sim.report("R2-generator-context", f"generator ({where}) sees T0 = {got[1]!r} ({got[0]}), the stream was created where "
                           f"T0 = {want0!r}; consumed {mode}", **feat(False), **r2_extra)
            got1 = state_of(T1)
            if got1[0] != "inst" or got1[1] is not a_t1:
                sim.report("R2-generator-context", f"generator ({where}) sees T1 = {got1[1]!r} ({got1[0]}), created with {a_t1!r}; "
                           f"consumed {mode}", **feat(False))
            got2 = state_of(T2)
            if got2[0] == "inst" and got2[1] is b_t2:
                sim.report("R2-generator-context", f"generator ({where}) sees the consumer's T2 = {got2[1]!r}", **feat(False))

        async def inner_gen():
            gen_probe("nested stream")
            yield 100
            yield 101

        async def gen(tag):
            st["gen_started"] = True
            sim.event("gen-start")
            try:
                for i, acts in enumerate(steps):
                    for act in acts:
                        if act == "probe":
                            gen_probe(f"before item {i}")
                        elif act == "record":
                            v = 10 + len(rec_values)
                            rec_values.append(v)
                            ctx.record(M1(items=(v,)), merge=lambda l, r: M1(items=(*l.items, *r.items)))
                        elif act == "pause":
                            await sim.pause(f"gen{i}")
                        elif act == "spawn":
                            # the generator starts a background task in its stream scope; it blocks until cancelled
                            async def background():
                                spawned.append("started")
                                try:
                                    forced = await sim.gate("gen-bg", held=True)
                                    spawned.append("forced" if forced else "released")
                                except asyncio.CancelledError:
                                    spawned.append("cancelled")
                                    raise
                            try:
                                ctx.spawn(background)
                                sim.stats["generator_spawned_task"] += 1
                            except RuntimeError:
                                pass
                        elif act == "nested-scope":
                            inner = make_state(0, 50 + i)
                            with ctx.scope("gen-nested", inner):
                                gen_probe("nested sync scope", extra=inner)
                                nv = 500 + len(nested_values)
                                nested_values.append(nv)
                                ctx.record(M1(items=(nv,)))
                            gen_probe("after nested sync scope")
                        else:
                            got = [x async for x in ctx.stream(inner_gen)]
                            if got != [100, 101]:
                                sim.fail("R1-nested-items", f"nested stream delivered {got}")
                            gen_probe("after nested stream")
                    if i < n_items:
                        sim.event("gen-yield", i)
                        yield item_value(i)
                if gen_raises:
                    sim.stats["fault:generator_raise"] += 1
                    raise gen_exc
            except asyncio.CancelledError:
                st["gen_cancelled"] = True
                raise
            finally:
                st["gen_closed"] = True
                sim.event("gen-closed")

        def consumer_obs():
            return {"T0": state_of(T0), "T2": state_of(T2), "log": log_probe(), "owner": owner_probe()}

        def compare(before, where, rule):
            now = consumer_obs()
            changed = []
            for key in ("T0", "T2", "log", "owner"):
                b, n = before[key], now[key]
                if b is None or n is None:
                    continue
                same = (b[0] == n[0] and b[1] is n[1]) if key in ("T0", "T2") else b == n
                if not same:
                    changed.append(key)
            if changed:
                # which part of the consumer's context changed is part of the signature: state, metrics scope (log) and
                # task group (owner) are separate ways to fail
                what = "+".join("state" if k in ("T0", "T2") else {"log": "metrics", "owner": "taskgroup"}[k] for k in changed)
                what = "+".join(dict.fromkeys(what.split("+")))
                key = changed[0]
                sim.report(rule, f"consumer ({mode}) {where}: its {'/'.join(changed)} changed; {key}: {before[key]!r} -> {now[key]!r}",
                           what=what, **feat(rule.startswith("R4")))

        async def gen2():
            ctx.record(M1(items=(200,)), merge=lambda l, r: M1(items=(*l.items, *r.items)))
            yield 200
            await sim.pause("gen2")
            yield 201

        async def consume2(stream2):
            got = []
            try:
                async for x in stream2:
                    got.append(x)
            except SimStop:
                raise
            except BaseException as exc:  # noqa: BLE001
                sim.report("R1-second-stream", f"second stream of the same scope ended with {exc!r} after {got}", kind=type(exc).__name__, **feat())
                return
            st["second_done_seq"] = sim.event("second-stream-done")
            if got != [200, 201]:
                sim.report("R1-second-stream", f"second stream delivered {got}", kind="items", **feat())

        async def consume(stream):
            if not in_handler:
                return await consume_now(stream)
            try:
                raise KeyError("the consumer is handling an error of its own")
            except KeyError:
                return await consume_now(stream)

        async def consume_now(stream):
            if pre_cancelled:
                # the consuming task handled a cancellation earlier (without uncancel): streams must still work
                asyncio.current_task().cancel()
                try:
                    await asyncio.sleep(0)
                except asyncio.CancelledError:
                    sim.stats["consumer_swallowed_cancel_before_stream"] += 1
            before = consumer_obs()
            k = 0
            try:
                if end == "never-started":
                    st["outcome"] = ("not-started", None)
                    return
                it = stream.__aiter__()
                while True:
                    st["in_fetch"] = True
                    try:
                        item = await it.__anext__()
                    except StopAsyncIteration:
                        st["outcome"] = ("end", None)
                        break
                    finally:
                        st["in_fetch"] = False
                    st["received"].append(item)
                    sim.event("item", k)
                    want_item = item_value(k) if k < n_items else "<none>"
                    if (item is not want_item) if type(want_item).__name__ == "Missing" else (
                            item != want_item or type(item) is not type(want_item)):
                        sim.fail("R1-items", f"received {item!r} as element {k}, the generator yielded {want_item!r}")
                    k += 1
                    compare(before, f"between items (after item {k - 1})", "R3-consumer-context-between-items")
                    if break_after is not None and k > break_after:
                        if end == "break-resume":
                            # the first loop was left by `break`; a second loop over the same stream object takes the rest
                            if not st.get("resumed"):
                                st["resumed"] = True
                                sim.stats["stream_resumed_by_second_loop"] += 1
                                sim.event("resume")
                                it = stream.__aiter__()
                            continue
                        st["outcome"] = ("break", None)
                        break
                if st["outcome"][0] == "break" and end == "break-aclose":
                    await stream.aclose()
                    if not st["gen_closed"]:
                        sim.fail("R5-aclose", "aclose() returned but the generator body was not finalised")
                    if "forced" in spawned and mode == "same-scope":
                        sim.report("R5-spawned-task-awaited", "aclose() of a stream whose generator had spawned a blocked task waited for "
                                   "that task (its gate had to be forced) instead of cancelling it", **feat())
            except asyncio.CancelledError:
                st["outcome"] = ("cancelled", None)
                compare(before, "after being cancelled during a fetch", "R4-consumer-context-after")
                raise
            except SimStop:
                raise
            except BaseException as exc:  # noqa: BLE001
                st["outcome"] = ("raised", exc)
            st["stream_done_seq"] = sim.seq
            compare(before, f"after the loop ({st['outcome'][0]})", "R4-consumer-context-after")

        def completion(metrics):
            st["completion"].append((sim.event("completion-A"), metrics))

        async def main():
            holder = {}

            async def in_a():
                if depth == 2:
                    async with ctx.scope("A2", a2_state):
                        create()
                else:
                    create()
                await consume_in_a()

            def create():
                if source_kind == 1:
                    import functools
                    holder["stream"] = ctx.stream(functools.partial(gen, "tag"))
                elif source_kind == 4:
                    class PlainIterator:
                        """An async iterator that is not a generator: __aiter__/__anext__ only (no aclose, athrow, asend)."""

                        def __init__(self, tag):
                            self.inner = gen(tag)

                        def __aiter__(self):
                            return self

                        async def __anext__(self):
                            return await self.inner.__anext__()
                    holder["stream"] = ctx.stream(PlainIterator, "tag")
                elif source_kind == 3:
                    import functools

                    @functools.wraps(gen)
                    def decorated():  # the decorator supplies the argument: unwrapping it would call gen() without one
                        return gen("tag")
                    holder["stream"] = ctx.stream(decorated)
                elif source_kind == 2:
                    class Source:
                        def __call__(self, tag):
                            return gen(tag)
                    holder["stream"] = ctx.stream(Source(), "tag")
                else:
                    holder["stream"] = ctx.stream(gen, "tag")
                if second:
                    holder["stream2"] = ctx.stream(gen2)

            async def consume_in_a():
                if mode == "same-scope":
                    if second and second_first:
                        await consume2(holder.pop("stream2"))
                    await consume(holder.pop("stream"))
                    if second and not second_first:
                        await consume2(holder.pop("stream2"))
                elif mode == "other-scope":
                    async with ctx.scope("B", b_state, b_t2):
                        await consume(holder.pop("stream"))
                elif mode == "other-task":
                    which = s.draw(2, "task-kind")

                    async def runner():
                        async with ctx.scope("B-task", b_state, b_t2):
                            await consume(holder.pop("stream"))
                    t = ctx.spawn(runner) if which == 0 else sim.loop.create_task(runner())
                    st["consumer_task"] = t
                    await asyncio.wait([t])

            me = asyncio.current_task()
            if mode != "other-task":
                st["consumer_task"] = me
            if cancel_consumer:
                def do_cancel():
                    t = st["consumer_task"]
                    if t is not None and not t.done() and st["in_fetch"] and t.cancel():
                        sim.stats["fault:cancel_consumer_in_fetch"] += 1
                        sim.event("cancel-consumer")
                sim.external("cancel-consumer", do_cancel, eligible=lambda: st["in_fetch"])
            try:
                async with ctx.scope("A", a_state, a_t1, completion=completion):
                    await in_a()
            except asyncio.CancelledError:
                if not cancel_consumer:
                    raise
            finally:
                st["a_left_seq"] = sim.event("A-left")
            if mode == "outside-scope":
                if second and second_first:
                    await consume2(holder.pop("stream2"))
                await consume(holder.pop("stream"))
                if second and not second_first:
                    await consume2(holder.pop("stream2"))
            holder.clear()
            if end in ("break-drop", "never-started"):
                # the reference is dropped; the collector runs at a scheduler-chosen later instant
                await sim.pause("before-gc")
                gc.collect()
                sim.event("gc")
                await sim.pause("after-gc")
                await sim.pause("after-gc2")

        outcome = sim.run(main)
        if sim.violation is not None or sim.harness_errors:
            return
        if outcome == "deadlock":
            sim.report_post("R1-hang", f"stream consumption never terminated ({mode}, {end})", **feat())
            return
        if outcome != "ok":
            return
        exc = sim.main.exception() if not sim.main.cancelled() else None
        if exc is not None:
            from props.scopes import Engine
            if Engine.origin(exc) == "harness":
                sim.harness_error(f"main failed: {exc!r}")
                return
            sim.report_post("R4-library-exception", f"consumption ended with library exception {exc!r}", kind=type(exc).__name__, **feat())
            return
        # R1: items and terminal outcome
        kind, obj = st["outcome"] or (None, None)
        if kind == "end":
            if len(st["received"]) != n_items or gen_raises:
                sim.report_post("R1-items", f"stream ended normally after {st['received']}, spec has {n_items} items, raises={gen_raises}", **feat())
        elif kind == "raised":
            if not (gen_raises and obj is gen_exc and len(st["received"]) == n_items):
                sim.report_post("R1-outcome", f"stream raised {obj!r} after {len(st['received'])} items (spec raises={gen_raises})",
                                kind=type(obj).__name__, **feat())
        # R5: the creating scope completes once, after the stream is exhausted / closed, with the generator's records
        started_and_finished = st["gen_started"] and st["gen_closed"]
        if len(st["completion"]) > 1:
            sim.report_post("R5-completion-twice", "completion of the creating scope fired twice", **feat())
        elif st["completion"]:
            seq, metrics = st["completion"][0]
            if st["gen_started"] and not st["gen_closed"]:
                sim.report_post("R5-completion-early", "creating scope completed while the stream body was still open", **feat())
            elif second and st.get("second_done_seq") is not None and seq < st["second_done_seq"]:
                sim.report_post("R5-completion-early", "creating scope completed before its second stream was exhausted", second=1, **feat())
            elif kind == "end" and mode in ("same-scope",):
                merged = metrics.metrics(merge=lambda cur, new: new if not isinstance(cur, M1) or not isinstance(new, M1)
                                         else M1(items=(*cur.items, *new.items)))
                got = [m for m in merged if isinstance(m, M1)]
                items = list(got[0].items) if got else []
                want_items = [*rec_values, *nested_values] + ([200] if second else [])
                if items != want_items:
                    sim.report_post("R5-metrics", f"merged metrics of the creating scope hold {items}, generator recorded {rec_values} and, in "
                                    f"nested scopes, {nested_values}" + (" and the second stream 200" if second else ""), **feat())
        else:
            if kind in ("end", "raised") or (kind == "break" and end == "break-aclose") or started_and_finished:
                sim.report_post("R5-completion-never", f"stream finished ({kind}) and scope A was left but A's completion never fired", **feat())
        # R6: finalisation must not report errors to the loop
        if st["gen_started"] and not st["gen_closed"] and end != "never-started" and kind != "cancelled":
            sim.report_post("R6-never-finalised", f"abandoned stream body was never finalised ({end})", **feat())
        errs = [e for e in sim.loop_errors]
        if errs or sim.unraisable:
            sim.report_post("R6-finalizer-error", f"stream finalisation reported to the loop exception handler: {(errs + sim.unraisable)[:2]}", **feat())


PROPS = {"C11": C11()}
