"""Shared test doubles for the workloads."""
from __future__ import annotations


class Injected(Exception):
    """An exception injected by the harness (uniquely tagged)."""

    def __init__(self, tag):
        super().__init__(tag)
        self.tag = tag


class InjectedSub(Injected):
    pass


class Other(Exception):
    def __init__(self, tag):
        super().__init__(tag)
        self.tag = tag


class InjectedBase(BaseException):
    """A non-Exception error injected by the harness."""

    def __init__(self, tag):
        super().__init__(tag)
        self.tag = tag


class Obj:
    """A unique, weak-referenceable result object."""
    __slots__ = ("tag", "__weakref__")

    def __init__(self, tag):
        self.tag = tag

    def __repr__(self):
        return f"Obj({self.tag!r})"


def describe_exc(e) -> str:
    return f"{type(e).__name__}({getattr(e, 'tag', e)!r})"


class InjectedGeneratorExit(GeneratorExit):
    """GeneratorExit injected by the harness (a scope inside an async generator that is closed early)."""

    def __init__(self, tag):
        super().__init__(tag)
        self.tag = tag


class InjectedRuntime(RuntimeError):
    def __init__(self, tag):
        super().__init__(tag)
        self.tag = tag
