"""C16 - timeout calls always terminate with the right outcome and leave nothing running.

Exact virtual time.  The wrapped function is characterised by (duration d, outcome); the timeout T
is drawn around d (d-eps, d, d+eps, 0, ...); a caller cancellation is injected either at an exact
virtual instant c (profile 'timed'/'jitter') or at every loop iteration of the fault-free twin run
(profile 'sweep').  Oracle: outcome + timestamp table, hang detector, nothing pending at quiescence,
nothing reported to the loop exception handler.
"""
from __future__ import annotations

import asyncio

from props.common import Injected, InjectedBase, Obj, describe_exc
from sim.loop import GRID
from sim.prop import Prop, sweep_expand

U = 128 * GRID  # 1/8 s
OUTCOMES = ("value", "exc", "base", "raise_cancelled", "self_cancel", "ignore_value", "ignore_exc", "own_timeout", "bad_call", "value_is_exception")
# the function's own exception need not be a harness class: exception types that asyncio itself uses for control flow
EXC_CLASSES = (("Injected", Injected), ("InvalidStateError", asyncio.InvalidStateError), ("StopAsyncIteration", StopAsyncIteration),
               ("AssertionError", AssertionError), ("RuntimeError", RuntimeError), ("QueueEmpty", asyncio.QueueEmpty),
               ("IncompleteReadError", lambda tag: asyncio.IncompleteReadError(b"", 1)))


class OwnTimeout(TimeoutError):
    """A TimeoutError raised by the wrapped function itself (e.g. from a socket): not the wrapper's."""


class C16(Prop):
    id = "C16"
    level = "fault_enumeration"
    tiers = {
        "quick": [("timed", 240000), ("sweep", 15000), ("jitter", 90000)],
        "thorough": [("timed", 4800000), ("sweep", 300000), ("jitter", 1800000)],
    }
    rule_text = (
        "one case = (duration d, outcome in {value, Exception, BaseException, raises CancelledError, cancels itself, "
        "ignores first cancel then value/exception, a TimeoutError of its own, call that does not bind}, exception class in {harness, "
        "InvalidStateError, StopAsyncIteration, AssertionError, RuntimeError, QueueEmpty, IncompleteReadError}, timeout T in {d-eps,d,d+eps,0,other}, start instant, caller "
        "cancel at an exact instant or at loop iteration k) + schedule (order of same-instant timers, lateness); "
        "profile 'sweep' enumerates the cancel over EVERY loop iteration of the fault-free twin; distinct = "
        "distinct event-log digest; non-trivial = a timeout fired, or a cancel landed while the call was in flight, "
        "or two deciding instants tied"
    )
    components = {
        "real": ["haiway.helpers.timeouted.timeout (unmodified)", "asyncio.Task/Future/sleep/call_later (CPython)"],
        "stub": ["event loop + clock (SimLoop, exact virtual time)", "wrapped function and caller are harness doubles"],
    }

    def sim_options(self, profile):
        return {"max_boundaries": 2000, "jitter_steps": 3 if profile == "jitter" else 0}

    def expand(self, seed, profile, run, sample):
        from sim.source import Source
        if profile == "sweep":
            return sweep_expand(self, seed, profile, run, sample)
        return run(Source(seed), sample)

    def execute(self, sim, profile):
        from haiway import timeout

        s = sim.source
        ncalls = 1 + s.weighted((5, 1), "ncalls")
        odd_kwargs = {"timeout": 99, "function": 1, "loop": 2} if s.chance(1, 3, "odd-kwargs") else {}
        # the second call may be made from a second event loop (asyncio.run twice) through the same wrapper object
        second_loop = ncalls == 2 and profile == "timed" and s.chance(1, 3, "second-loop")
        pre_cancelled = profile == "timed" and s.chance(1, 8, "pre-cancelled")
        # callers may work inside a scope with state: the function runs in a task of its own, started by the library on the
        # caller's behalf - it sees the caller's state, and its own updates are never visible to the caller
        scoped = s.chance(1, 3, "callers-in-scope")
        specs = []
        for ci in range(ncalls):
            d_steps = (0, 128, 256, 384, 1)[s.draw(5, "d")]
            outcome = OUTCOMES[s.draw(len(OUTCOMES), "outcome")]
            tk = s.draw(6, "T")
            if tk == 0:
                t_steps = d_steps + 128
            elif tk == 1:
                t_steps = d_steps
            elif tk == 2:
                t_steps = max(0, d_steps - 1)
            elif tk == 3:
                t_steps = d_steps + 1
            elif tk == 4:
                t_steps = 0
            else:
                t_steps = max(0, d_steps - 128)
            e_steps = (0, 128, 1)[s.draw(3, "e")] if outcome.startswith("ignore") else 0
            exc_class = s.weighted((6, 2, 1, 1, 1, 1, 1), "exc-class") if outcome in ("exc", "ignore_exc") else 0
            t0_steps = (0, 384, 5)[s.draw(3, "t0")]
            # the wrapped function may itself be a haiway wrapper object (stacked decorators): an inner timeout
            # that never fires must not change anything
            stacked = s.chance(1, 5, "stacked")
            c_steps = None
            if profile in ("timed", "jitter") and ci == 0:
                ck = s.draw(8, "c")
                start, tf, tt = t0_steps, t0_steps + d_steps, t0_steps + t_steps
                lo, hi = min(tf, tt), max(tf, tt)
                if ck == 1:
                    c_steps = max(0, start - 1) if start else None
                elif ck == 2:
                    c_steps = start + max(0, (lo - start) // 2)
                elif ck == 3:
                    c_steps = tt
                elif ck == 4:
                    c_steps = tf
                elif ck == 5:
                    c_steps = (lo + hi) // 2
                elif ck == 6:
                    c_steps = hi + 64
                elif ck == 7:
                    c_steps = lo - 1 if lo > start else None
            if ci == 1 and s.chance(1, 2, "share-wrapper"):
                t_steps, stacked = specs[0]["T"], specs[0]["stacked"]
            if outcome == "bad_call":
                stacked = False  # (under a second wrapper the failed invocation is an ordinary exception inside the inner call)
            specs.append({"d": d_steps, "outcome": outcome, "T": t_steps, "e": e_steps, "t0": t0_steps,
                          "c": c_steps, "stacked": int(stacked), "exc_class": EXC_CLASSES[exc_class][0]})
        from haiway import MissingContext, State, ctx

        class Tag(State):
            value: int = -1

        def visible_tag():
            try:
                return ctx.state(Tag).value
            except MissingContext:
                return "no-context"

        sim.program = {"calls": specs, "callers_in_scope": int(scoped), "inject_at_iteration": sim.inject_choice if profile == "sweep" else 0,
                       "second_call_on_second_event_loop": int(second_loop)}
        sim.program["wrapped_is_sync_passthrough"] = 0
        jitter = sim.jitter_steps * GRID

        calls = []

        def make_fn(ci, spec):
            rec = {"started": [], "cancel_seen": [], "ended": None, "result": Obj(("r", ci)),
                   "exc": dict(EXC_CLASSES)[spec["exc_class"]](("e", ci)), "base": InjectedBase(("b", ci)), "own": OwnTimeout(("t", ci))}

            async def fn(arg, *, kw=None, **extra):
                rec["started"].append(sim.now)
                sim.event("fn-start", ci)
                if arg != ("a", ci) or kw != ("k", ci) or extra != odd_kwargs:
                    sim.fail("arguments", f"function called with {arg!r}, kw={kw!r}, extra keywords {extra!r} (expected {odd_kwargs!r})")
                out = spec["outcome"]
                d = spec["d"] * GRID
                want_tag = ci if scoped else "no-context"
                if visible_tag() != want_tag:
                    sim.fail("function-state", f"call {ci}: the function observed state {visible_tag()!r} where the caller had {want_tag!r}")
                update = ctx.updated(Tag(value=100 + ci)) if scoped else None
                if update is not None:
                    update.__enter__()
                try:
                    try:
                        await asyncio.sleep(d)
                    except asyncio.CancelledError:
                        rec["cancel_seen"].append(sim.now)
                        sim.event("fn-cancel-seen", ci)
                        if not out.startswith("ignore"):
                            raise
                        try:
                            await asyncio.sleep(spec["e"] * GRID)
                        except asyncio.CancelledError:
                            rec["cancel_seen"].append(sim.now)
                            sim.event("fn-cancel-seen", ci)
                            raise
                    if out in ("value", "ignore_value"):
                        return rec["result"]
                    if out == "value_is_exception":
                        return rec["exc"]  # an exception instance handed back as a VALUE (errors-as-values): not raised
                    if out in ("exc", "ignore_exc"):
                        raise rec["exc"]
                    if out == "own_timeout":
                        raise rec["own"]
                    if out == "base":
                        raise rec["base"]
                    if out == "raise_cancelled":
                        raise asyncio.CancelledError()
                    if out == "self_cancel":
                        asyncio.current_task().cancel()
                        await asyncio.sleep(0)
                        sim.harness_error("self-cancel did not take effect")
                finally:
                    if update is not None:
                        if visible_tag() != 100 + ci:
                            sim.fail("function-state", f"call {ci}: the function lost its own update: sees {visible_tag()!r}")
                        update.__exit__(None, None, None)
                    rec["ended"] = sim.now
                    sim.event("fn-end", ci)

            fn.__name__ = f"fn{ci}"
            return fn, rec

        async def caller(ci, spec, wrapped, out):
            if not scoped:
                return await caller_body(ci, spec, wrapped, out)
            async with ctx.scope(f"caller{ci}", Tag(value=ci)):
                try:
                    return await caller_body(ci, spec, wrapped, out)
                finally:
                    # (no further suspension here: the caller task must end exactly when the call does)
                    if visible_tag() != ci:
                        sim.fail("caller-state", f"call {ci}: after the call ended ({out.get('kind')}) the caller sees state "
                                 f"{visible_tag()!r} instead of its own {ci}", after=str(out.get("kind")))

        async def caller_body(ci, spec, wrapped, out):
            if spec["t0"]:
                try:
                    await asyncio.sleep(spec["t0"] * GRID)
                except asyncio.CancelledError:
                    out["kind"], out["obj"], out["at"] = "cancelled-before-call", None, sim.now
                    sim.event("caller-outcome", ci, out["kind"])
                    return
            if pre_cancelled and spec["c"] is None:
                asyncio.current_task().cancel()
                try:
                    await asyncio.sleep(0)
                except asyncio.CancelledError:
                    sim.stats["caller_swallowed_cancel_before_call"] += 1
            out["called"] = sim.now
            sim.event("call", ci)
            if via_attribute:
                # the wrapper object is kept as a class attribute (a shared helper) and reached through an instance: it is not a
                # method and must not receive the instance
                wrapped = type("Holder", (), {"call": wrapped})().call
            try:
                if spec["outcome"] == "bad_call":
                    # the call itself does not bind: the wrapped function raises TypeError when invoked, before any coroutine exists
                    r = await wrapped(("a", ci), kw=("k", ci), no_such_parameter=1)
                else:
                    r = await wrapped(("a", ci), kw=("k", ci), **odd_kwargs)
            except asyncio.CancelledError as exc:
                out["kind"], out["obj"] = "cancelled", exc
            except TimeoutError as exc:
                out["kind"], out["obj"] = "timeout", exc
            except BaseException as exc:  # noqa: BLE001
                out["kind"], out["obj"] = "raised", exc
                if spec["outcome"] == "bad_call":
                    exc.__traceback__ = None  # do not keep the wrapper's frame (and whatever it left behind) alive through the record
            else:
                out["kind"], out["obj"] = "value", r
            out["at"] = sim.now
            sim.event("caller-outcome", ci, out["kind"])

        fns = [make_fn(ci, spec) for ci, spec in enumerate(specs)]

        async def dispatch(arg, *, kw=None, **extra):
            # one function object for all calls: overlapping calls with equal timeout share ONE wrapper object
            ci = arg[1] if isinstance(arg, tuple) and len(arg) == 2 and isinstance(arg[1], int) and arg[1] < len(fns) else 0
            return await fns[ci][0](arg, kw=kw, **extra)

        dispatch.__name__ = "fn"

        async def strict(arg, *, kw=None):  # a signature that rejects unknown keywords
            return await fns[arg[1]][0](arg, kw=kw)

        strict.__name__ = "fn"

        import functools

        @functools.wraps(dispatch)
        def passthrough(*a, **k):  # a classic synchronous pass-through decorator around the async function
            return dispatch(*a, **k)

        via_passthrough = s.chance(1, 5, "sync-passthrough-decorator")
        via_attribute = s.chance(1, 5, "wrapper-kept-as-class-attribute")
        sim.program["wrapped_is_sync_passthrough"] = int(via_passthrough)
        sim.program["wrapper_reached_through_instance_attribute"] = int(via_attribute)
        wrappers = {}

        def wrapper_for(spec):
            bad = spec["outcome"] == "bad_call"
            key = (spec["T"], spec["stacked"], bad)
            target = strict if bad else (passthrough if via_passthrough else dispatch)
            if key not in wrappers:
                if spec["stacked"]:
                    sim.stats["stacked_decorators"] += 1
                    wrappers[key] = timeout(spec["T"] * GRID)(timeout(8192 * GRID)(target))
                else:
                    wrappers[key] = timeout(spec["T"] * GRID)(target)
            else:
                sim.stats["overlapping_calls_share_wrapper"] += 1
            return wrappers[key]

        phase = {"n": 1}

        async def main():
            tasks = []
            for ci, spec in enumerate(specs):
                if second_loop and (ci == 1) != (phase["n"] == 2):
                    continue
                fn, rec = fns[ci]
                wrapped = wrapper_for(spec)
                out = {"kind": None, "cancel_ret": None, "cancel_at": None}
                t = sim.loop.create_task(caller(ci, spec, wrapped, out))
                calls.append((spec, rec, out, t))
                tasks.append(t)
                if spec["c"] is not None:
                    def do_cancel(t=t, out=out, ci=ci):
                        out["cancel_ret"] = t.cancel()
                        out["cancel_at"] = sim.now
                        out["cancel_called"] = out.get("called") is not None
                        out["cancel_outcome_known"] = out.get("kind")
                        sim.event("caller-cancel", ci, out["cancel_ret"])
                        sim.stats["fault:caller_cancel_at_instant"] += 1
                    sim.at(spec["c"] * GRID, do_cancel)
            if profile == "sweep" and sim.inject_choice:
                spec, rec, out, t = calls[0]

                def inj(t=t, out=out):
                    out["cancel_ret"] = t.cancel()
                    out["cancel_at"] = sim.now
                    out["cancel_called"] = out.get("called") is not None
                    out["cancel_outcome_known"] = out.get("kind")
                    out["fn_ended_at_cancel"] = calls[0][1]["ended"] is not None
                    sim.event("caller-cancel", 0, out["cancel_ret"])
                    sim.stats["fault:caller_cancel_at_iteration"] += 1
                sim.inject(sim.inject_choice, "cancel-caller", inj)
            await asyncio.wait(tasks)

        outcome = sim.run(main)
        if second_loop and outcome == "ok" and sim.violation is None and not sim.harness_errors:
            sim.next_loop()
            phase["n"] = 2
            outcome = sim.run(main)
        if sim.violation is not None or sim.harness_errors:
            return
        if outcome == "deadlock":
            hung = [ci for ci, (_s, _r, out, _t) in enumerate(calls) if out["kind"] is None]
            spec = calls[hung[0]][0] if hung else None
            why = "fn-ended-cancelled" if spec and spec["outcome"] in ("raise_cancelled", "self_cancel") else (
                "fn-raised-base" if spec and spec["outcome"] == "base" else "other")
            sim.fail_post("hang", f"call {hung} never terminated (spec {spec}); loop errors {sim.loop_errors[:1]}",
                          why=why)
            return
        if outcome != "ok":
            return
        if sim.main.exception() is not None:
            sim.harness_error(f"main failed: {sim.main.exception()!r}")
            return
        for ci, (spec, rec, out, t) in enumerate(calls):
            self.judge(sim, ci, spec, rec, out, jitter)
            if sim.violation is not None:
                return
        if sim.loop_errors:
            sim.fail_post("loop-error", f"loop exception handler called: {sim.loop_errors[:2]}")

    # ------------------------------------------------------------------------------------------
    def judge(self, sim, ci, spec, rec, out, jitter):
        eps = 1e-9
        kind, obj, at = out["kind"], out.get("obj"), out.get("at")
        start = out.get("called")
        if start is None:
            start = spec["t0"] * GRID
        tf = start + spec["d"] * GRID
        tt = start + spec["T"] * GRID
        o = spec["outcome"]

        def natural_ok():
            # the function's own outcome as the caller must see it
            if o in ("value", "ignore_value"):
                return kind == "value" and obj is rec["result"]
            if o == "value_is_exception":
                return kind == "value" and obj is rec["exc"]
            if o in ("exc", "ignore_exc"):
                return kind == "raised" and obj is rec["exc"]
            if o == "own_timeout":
                return kind == "timeout" and obj is rec["own"]
            if o == "base":
                return kind == "raised" and obj is rec["base"]
            return kind == "cancelled"

        cancel_effective = out["cancel_ret"] is True
        tc = out["cancel_at"]
        called = out.get("called")
        if cancel_effective and not out.get("cancel_called"):
            # cancelled before the call was made: the function must never start
            if rec["started"]:
                sim.fail_post("started-after-cancel", f"call {ci}: function started although the caller was cancelled before calling")
            return
        if o == "bad_call":
            # the function raised when it was invoked: that TypeError is the call's outcome, at once, and nothing is left behind
            # (an armed deadline would later show up as a loop error or a pending timer)
            sim.stats["call_did_not_bind"] += 1
            if rec["started"]:
                sim.fail_post("start", f"call {ci}: function body ran although the call did not bind")
            elif not cancel_effective and not (kind == "raised" and isinstance(obj, TypeError) and abs(at - called) <= eps):
                sim.fail_post("outcome", f"call {ci}: the call did not bind (TypeError on invocation at {called}) but the caller got {kind} {obj!r} at {at}",
                              got=str(kind), want="natural", fn=o)
            return
        if len(rec["started"]) != 1 or abs(rec["started"][0] - called) > eps:
            sim.fail_post("start", f"call {ci}: function started {rec['started']} but the call was made at {called}")
            return
        if rec["ended"] is None:
            sim.fail_post("left-running", f"call {ci}: the wrapped function is still pending at quiescence (spec {spec}, caller {kind})",
                          caller=kind)
            return

        # which deciding instants tie (with jitter: are within the maximal lateness of each other)
        def tie(a, b):
            return abs(a - b) <= jitter + eps

        accept = set()
        if cancel_effective:
            # a cancel that asyncio accepted always ends the (non-catching) caller cancelled
            accept = {"cancelled"}
            sim.nontrivial = True
            when_lo = tc
        else:
            if tf < tt and not tie(tf, tt):
                accept = {"natural"}
                when_lo = tf
            elif tt < tf and not tie(tf, tt):
                accept = {"timeout"}
                when_lo = tt
                sim.nontrivial = True
            else:
                accept = {"natural", "timeout"}
                when_lo = min(tf, tt)
                sim.stats["deadline_tie"] += 1
                sim.nontrivial = True
        got = None
        if kind == "timeout" and not (o == "own_timeout" and obj is rec["own"]):
            got = "timeout"
            if isinstance(obj, OwnTimeout):
                got = "foreign-own-timeout"
        elif kind == "cancelled" and (cancel_effective or o not in ("raise_cancelled", "self_cancel")):
            got = "cancelled"
        if "natural" in accept and natural_ok():
            got = "natural"
        if cancel_effective and kind == "cancelled":
            got = "cancelled"
        if got not in accept:
            sim.fail_post("outcome", f"call {ci}: caller got {kind} {describe_exc(obj) if isinstance(obj, BaseException) else obj!r} "
                          f"at {at}, acceptable {sorted(accept)} (d={spec['d']}, T={spec['T']}, outcome={o}, cancel={out['cancel_ret']}@{tc})",
                          got=str(kind), want="|".join(sorted(accept)), fn=o, **({"stacked": 1} if spec.get("stacked") else {}))
            return
        # timestamps
        if got == "timeout":
            sim.stats["timeout_fired"] += 1
            if at < tt - eps:
                sim.fail_post("early-timeout", f"call {ci}: TimeoutError at {at} before the deadline {tt}")
                return
            if at > tt + jitter + eps:
                sim.fail_post("late-timeout", f"call {ci}: TimeoutError at {at}, deadline {tt}, lateness bound {jitter}")
                return
        elif got == "natural":
            if abs(at - tf) > jitter + eps and not (at >= tf - eps and at <= tf + jitter + eps):
                sim.fail_post("natural-time", f"call {ci}: own outcome delivered at {at}, function ended at {tf}")
                return
        elif got == "cancelled" and cancel_effective:
            if abs(at - tc) > eps:
                sim.fail_post("cancel-time", f"call {ci}: caller cancelled at {tc} but ended at {at}")
                return
        # the function must have been cancelled when the caller left without its outcome
        if got in ("timeout", "cancelled") and not (got == "cancelled" and not cancel_effective):
            ended_naturally_same_instant = abs(rec["ended"] - at) <= eps and not rec["cancel_seen"]
            if not rec["cancel_seen"] and not ended_naturally_same_instant and rec["ended"] > at + eps:
                sim.fail_post("not-cancelled", f"call {ci}: caller left with {got} at {at} but the function never observed "
                              f"a cancellation (ended {rec['ended']})", got=got)
                return
            if rec["cancel_seen"] and abs(rec["cancel_seen"][0] - at) > eps and rec["cancel_seen"][0] > at + eps:
                sim.fail_post("cancel-late", f"call {ci}: function observed cancellation at {rec['cancel_seen'][0]}, caller left at {at}")
                return


from sim.prop import with_eager  # noqa: E402

C16.tiers = with_eager(C16.tiers, [('timed', 80000)])
PROPS = {"C16": C16()}
