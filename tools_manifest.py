#!/venv/bin/python
"""Regenerates MANIFEST.json from the table below (kept valid at all times)."""
import json
import os

VERIF = os.path.dirname(os.path.abspath(__file__))

CLAIMED = {
    # id: (level, design_ref, technique, level text, note)
    "C17": ("exploration", "4 (C17)", "deterministic simulation: seeded placement of producer/cancel events on a virtual-time asyncio loop, reference FIFO oracle",
            "Seeded search over driver-op lists and schedules (which loop iteration notices each enqueue/finish/cancel, several per iteration) with a reference FIFO and exactly-once accounting; sampling, not proof.",
            "CPython asyncio Task/Future trusted; single consumer as documented; schedules restricted to what a FIFO-ready asyncio loop can produce."),
}

CLAIMED.update({
    "C12": ("exploration", "4 (C12)", "deterministic simulation: seeded call/clock-advance/gc histories on a virtual clock, reference LRU-with-expiry oracle",
            "Seeded search over call histories (<=60 ops, typed-equal argument alphabets, 4 flavours, limits 1..4, expirations) with clock jumps biased to expiry boundaries; safety/must-hit/retention oracle; sampling, not proof.",
            "time.monotonic replaced by the virtual clock; hit-or-miss at age == expiration and for semantically equal call forms left open (DESIGN 2.8 rule 2); retention measured by weak references after gc.collect()."),
    "C13": ("fault_enumeration", "4 (C13)", "deterministic simulation: seeded arrival/gate-release schedules, cancel of a caller swept over every loop iteration of the fault-free twin, shared-invocation model",
            "For sampled caller/key/limit/expiry configurations the cancel of one caller is enumerated over every loop iteration of the recorded fault-free run; random multi-cancel, eviction and expiry in flight besides. Enumeration is over fault positions of sampled schedules, not over all schedules.",
            "asyncio.shield/Task trusted; arrivals at age == expiration are avoided (covered by C12)."),
    "C14": ("exploration", "4 (C14)", "deterministic simulation: outcome sequences as fault sequences on a virtual clock (time.sleep / asyncio.sleep seams), cancel swept over loop iterations, reference attempt/pause calculator",
            "Seeded search over (limit, catching form, delay form, outcome sequence) for sync and async variants with exact virtual timestamps of attempts and sleeps; async cancel enumerated over every loop iteration of sampled runs.",
            "time.sleep replaced by a recorder that advances the virtual clock; an int delay is a configured number (quantifier of C14)."),
    "C15": ("exploration", "4 (C15)", "deterministic simulation in exact virtual time: seeded arrival patterns, same-instant tie order, timer lateness and caller cancels; sliding-window/FIFO/no-needless-delay/liveness oracle",
            "Seeded search over arrival patterns of up to 12 calls around the period boundary, limits 1..4, period as float/int/timedelta, durations and outcomes; profiles with timer lateness and with cancelled queued callers.",
            "time.monotonic and the loop clock are the same virtual clock (as in CPython where loop.time() is time.monotonic()); instants are multiples of 2^-10 s so comparisons are exact."),
    "C16": ("fault_enumeration", "4 (C16)", "deterministic simulation in exact virtual time: (duration, outcome, timeout) grids, caller cancel at exact instants and swept over every loop iteration, timer tie order and lateness; outcome+timestamp table, hang detector",
            "Caller cancellation is enumerated over every loop iteration of sampled fault-free runs and over the instants before/at/between/after the deadline and the function end; hang = loop deadlock with the caller pending.",
            "At d == T and for instants tied with the cancel either outcome is accepted; with lateness profile ties are widened by the maximal lateness."),
})

NOT_YET = {
}

NOT_APPLICABLE = {
    "C04": "pure value semantics of one object under a sequential history; no schedule, clock, I/O or fault influences the outcome, so deterministic simulation adds nothing over input generation (DESIGN 11)",
    "C05": "acceptance/conversion is a pure function of (annotation, value); no concurrency, time or fault surface (DESIGN 11)",
    "C20": "identity of MISSING under call/copy/deepcopy/pickle is a pure function of its input; no schedule, clock or fault (DESIGN 11)",
}

ALL = [f"C{i:02d}" for i in range(1, 21)]


def main():
    checks = []
    for pid in ALL:
        if pid not in CLAIMED:
            continue
        level, ref, technique, text, note = CLAIMED[pid]
        checks.append({
            "property_id": pid,
            "quick_cmd": f"/verif/bin/check {pid} --tier quick",
            "thorough_cmd": f"/verif/bin/check {pid} --tier thorough",
            "evidence_file": f"/verif/evidence/{pid}.json",
            "replay_cmd_template": f"/verif/bin/check {pid} --replay {{path}}",
            "engine": "simloop",
            "level_claimed": {"category": level, "text": text, "design_ref": ref},
            "level_note": note,
            "technique": technique,
        })
    na = []
    for pid in ALL:
        if pid in CLAIMED:
            continue
        if pid in NOT_APPLICABLE:
            na.append({"property_id": pid, "reason": NOT_APPLICABLE[pid]})
        else:
            na.append({"property_id": pid, "reason": NOT_YET.get(pid, "not claimed yet: the simulated check for this property is still being built (see DESIGN.md section 0 for the planned check)")})
    doc = {
        "version": 1,
        "setup_cmd": "/venv/bin/python -c \"import sys; sys.path.insert(0,'/repo/src'); import haiway, asyncio; print('haiway', haiway.__file__)\"",
        "hooks": {
            "guard": "HAIWAY_VERIF",
            "enable": "no hook exists in /repo: every seam (clock, sleep, uuid4, event loop, executor, task factory) is reachable from outside; the guard name is reserved and unused",
            "baseline_off_cmd": "cd /repo && /venv/bin/python -m pytest -ra -q -p no:cacheprovider --timeout=900 --continue-on-collection-errors",
            "source_commits": [],
            "add_only": True,
        },
        "engines": [{
            "name": "simloop",
            "path": "/verif/sim",
            "serves_properties": sorted(CLAIMED),
            "kind_free_text": "deterministic simulation with fault injection: SimLoop (asyncio.BaseEventLoop subclass, virtual clock, seeded placement of external events, timer ties, task-set order), choice-list Source with ddmin shrinking and replay files, reference-model oracles",
        }],
        "checks": checks,
        "not_applicable": na,
        "notes": "All checks import haiway from /repo/src at run time (HAIWAY_SRC overrides for mutant testing), so nothing is built. Exit 0 held / 1 VIOLATION / 2 harness failure. See DESIGN.md.",
    }
    with open(os.path.join(VERIF, "MANIFEST.json"), "w") as f:
        json.dump(doc, f, indent=1)


if __name__ == "__main__":
    main()
