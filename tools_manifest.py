#!/venv/bin/python
"""Regenerates MANIFEST.json from the table below (kept valid at all times)."""
import json
import os

VERIF = os.path.dirname(os.path.abspath(__file__))

CLAIMED = {
    # id: (level, design_ref, technique, level text, note)
    "C17": ("exploration", "4 (C17)", "deterministic simulation: seeded placement of producer/cancel events on a virtual-time asyncio loop, reference FIFO oracle",
            "Seeded search over driver-op lists and schedules (which loop iteration notices each enqueue/finish/cancel, several per iteration) with a reference FIFO and exactly-once accounting; sampling, not proof.",
            "CPython asyncio Task/Future trusted; single consumer as documented; schedules restricted to what a FIFO-ready asyncio loop can produce."),
}

NOT_YET = {
}

NOT_APPLICABLE = {
    "C04": "pure value semantics of one object under a sequential history; no schedule, clock, I/O or fault influences the outcome, so deterministic simulation adds nothing over input generation (DESIGN 11)",
    "C05": "acceptance/conversion is a pure function of (annotation, value); no concurrency, time or fault surface (DESIGN 11)",
    "C20": "identity of MISSING under call/copy/deepcopy/pickle is a pure function of its input; no schedule, clock or fault (DESIGN 11)",
}

ALL = [f"C{i:02d}" for i in range(1, 21)]


def main():
    checks = []
    for pid in ALL:
        if pid not in CLAIMED:
            continue
        level, ref, technique, text, note = CLAIMED[pid]
        checks.append({
            "property_id": pid,
            "quick_cmd": f"/verif/bin/check {pid} --tier quick",
            "thorough_cmd": f"/verif/bin/check {pid} --tier thorough",
            "evidence_file": f"/verif/evidence/{pid}.json",
            "replay_cmd_template": f"/verif/bin/check {pid} --replay {{path}}",
            "engine": "simloop",
            "level_claimed": {"category": level, "text": text, "design_ref": ref},
            "level_note": note,
            "technique": technique,
        })
    na = []
    for pid in ALL:
        if pid in CLAIMED:
            continue
        if pid in NOT_APPLICABLE:
            na.append({"property_id": pid, "reason": NOT_APPLICABLE[pid]})
        else:
            na.append({"property_id": pid, "reason": NOT_YET.get(pid, "not claimed yet: the simulated check for this property is still being built (see DESIGN.md section 0 for the planned check)")})
    doc = {
        "version": 1,
        "setup_cmd": "/venv/bin/python -c \"import sys; sys.path.insert(0,'/repo/src'); import haiway, asyncio; print('haiway', haiway.__file__)\"",
        "hooks": {
            "guard": "HAIWAY_VERIF",
            "enable": "no hook exists in /repo: every seam (clock, sleep, uuid4, event loop, executor, task factory) is reachable from outside; the guard name is reserved and unused",
            "baseline_off_cmd": "cd /repo && /venv/bin/python -m pytest -ra -q -p no:cacheprovider --timeout=900 --continue-on-collection-errors",
            "source_commits": [],
            "add_only": True,
        },
        "engines": [{
            "name": "simloop",
            "path": "/verif/sim",
            "serves_properties": sorted(CLAIMED),
            "kind_free_text": "deterministic simulation with fault injection: SimLoop (asyncio.BaseEventLoop subclass, virtual clock, seeded placement of external events, timer ties, task-set order), choice-list Source with ddmin shrinking and replay files, reference-model oracles",
        }],
        "checks": checks,
        "not_applicable": na,
        "notes": "All checks import haiway from /repo/src at run time (HAIWAY_SRC overrides for mutant testing), so nothing is built. Exit 0 held / 1 VIOLATION / 2 harness failure. See DESIGN.md.",
    }
    with open(os.path.join(VERIF, "MANIFEST.json"), "w") as f:
        json.dump(doc, f, indent=1)


if __name__ == "__main__":
    main()
