#!/venv/bin/python
"""Regenerates MANIFEST.json from the table below (kept valid at all times)."""
import json
import os

VERIF = os.path.dirname(os.path.abspath(__file__))

CLAIMED = {
    # id: (level, design_ref, technique, level text, note)
    "C17": ("exploration", "4 (C17)", "deterministic simulation: seeded placement of producer/cancel events on a virtual-time asyncio loop, reference FIFO oracle",
            "Seeded search over driver-op lists and schedules (which loop iteration notices each enqueue/finish/cancel, several per iteration) with a reference FIFO and exactly-once accounting; sampling, not proof.",
            "CPython asyncio Task/Future trusted; single consumer as documented; schedules restricted to what a FIFO-ready asyncio loop can produce."),
}

CLAIMED.update({
    "C12": ("exploration", "4 (C12)", "deterministic simulation: seeded call/clock-advance/gc histories on a virtual clock, reference LRU-with-expiry oracle",
            "Seeded search over call histories (<=60 ops, typed-equal argument alphabets, 4 flavours, limits 1..4, expirations) with clock jumps biased to expiry boundaries; safety/must-hit/retention oracle; sampling, not proof.",
            "time.monotonic replaced by the virtual clock; hit-or-miss at age == expiration and for semantically equal call forms left open (DESIGN 2.8 rule 2); retention measured by weak references after gc.collect()."),
    "C13": ("fault_enumeration", "4 (C13)", "deterministic simulation: seeded arrival/gate-release schedules, cancel of a caller swept over every loop iteration of the fault-free twin, shared-invocation model",
            "For sampled caller/key/limit/expiry configurations the cancel of one caller is enumerated over every loop iteration of the recorded fault-free run; random multi-cancel, eviction and expiry in flight besides. Enumeration is over fault positions of sampled schedules, not over all schedules.",
            "asyncio.shield/Task trusted; arrivals at age == expiration are avoided (covered by C12)."),
    "C14": ("exploration", "4 (C14)", "deterministic simulation: outcome sequences as fault sequences on a virtual clock (time.sleep / asyncio.sleep seams), cancel swept over loop iterations, reference attempt/pause calculator",
            "Seeded search over (limit, catching form, delay form, outcome sequence) for sync and async variants with exact virtual timestamps of attempts and sleeps; async cancel enumerated over every loop iteration of sampled runs.",
            "time.sleep replaced by a recorder that advances the virtual clock; an int delay is a configured number (quantifier of C14)."),
    "C15": ("exploration", "4 (C15)", "deterministic simulation in exact virtual time: seeded arrival patterns, same-instant tie order, timer lateness and caller cancels; sliding-window/FIFO/no-needless-delay/liveness oracle",
            "Seeded search over arrival patterns of up to 12 calls around the period boundary, limits 1..4, period as float/int/timedelta, durations and outcomes; profiles with timer lateness and with cancelled queued callers.",
            "time.monotonic and the loop clock are the same virtual clock (as in CPython where loop.time() is time.monotonic()); instants are multiples of 2^-10 s so comparisons are exact."),
    "C16": ("fault_enumeration", "4 (C16)", "deterministic simulation in exact virtual time: (duration, outcome, timeout) grids, caller cancel at exact instants and swept over every loop iteration, timer tie order and lateness; outcome+timestamp table, hang detector",
            "Caller cancellation is enumerated over every loop iteration of sampled fault-free runs and over the instants before/at/between/after the deadline and the function end; hang = loop deadlock with the caller pending.",
            "At d == T and for instants tied with the cancel either outcome is accepted; with lateness profile ties are widened by the maximal lateness."),
})

SCOPE_NOTE = ("Shadow-environment oracle over public API only (one CPython peek: Task._callbacks to identify the owning TaskGroup, "
              "degrades to silence); CPython 3.12.1 TaskGroup semantics trusted, the one place where it drops an external cancel "
              "(group already aborting) is exempted and counted.")
CLAIMED.update({
    "C01": ("exploration", "3 (C01)", "deterministic simulation: generated scope/update program trees run under SimLoop, shadow-environment oracle in lock-step (program shape is the deciding dimension; schedule dimension = completion order of concurrently entered disposables)",
            "Seeded search over nested scope/update programs with probes at every position; fault-free profile of the engine that C02 runs with faults.", SCOPE_NOTE),
    "C02": ("fault_enumeration", "3 (C02)", "deterministic simulation with fault injection: body raise, failing spawned tasks, disposable enter/exit failures, external cancel swept over every loop iteration of the fault-free twin; before/after observation of state, log scope and owning task group around every block",
            "For sampled programs the external cancel is enumerated over every loop iteration (crash-point sweep); other faults are sampled. Restore is judged by comparing the surrounding code's observations before and after each block.", SCOPE_NOTE),
    "C03": ("exploration", "3 (C03)", "deterministic simulation: 2..4 actors (ctx.spawn / create_task) interleaved at every suspension point by the seeded scheduler, per-actor shadow environments",
            "Seeded search over interleavings of concurrently running scope programs; every actor probes after every operation.", SCOPE_NOTE),
    "C06": ("fault_enumeration", "3 (C06)", "deterministic simulation: spawned-task programs with plain/held gates, body raise, child failure, external cancel swept over loop iterations; join check at the instant `async with` returns, deadlock detector",
            "Task done() is checked at the instant control returns from every async scope; hangs are loop deadlocks with all gates released; cancel positions are enumerated over the loop iterations of sampled runs.", SCOPE_NOTE),
    "C07": ("fault_enumeration", "3 (C07)", "deterministic simulation: one external Task.cancel() swept over every loop iteration of the fault-free twin (landing points classified: in enter, body, exit-disposables, exit-wait), ctx.cancel/check_cancellation ops",
            "Enumeration of the cancel position over all loop iterations of sampled programs; the victim must end cancelled, blocked children must end cancelled, check_cancellation must agree with the recorded cancel requests.", SCOPE_NOTE),
    "C08": ("fault_enumeration", "3 (C08)", "deterministic simulation: disposable doubles failing/suspending in enter and exit, all completion orders, body raise, cancel swept over loop iterations; enter/exit call-log and exception-reachability oracle at quiescence",
            "Fault subsets (enter/exit raise, suspend) are sampled, cancel positions enumerated for sampled programs; exactly-once entry/exit is evaluated at quiescence.", SCOPE_NOTE),
    "C09": ("exploration", "3 (C09)", "deterministic simulation: scope trees whose children run in spawned or detached tasks that may outlive the parent; seeded linearisation of enter/exit events; completion-callback history oracle at quiescence with virtual time",
            "Seeded search over linearisations; callbacks checked for exactly-once, after-subtree, eventually, stable is_completed/time.", SCOPE_NOTE + " time.monotonic in context/metrics.py is the virtual clock."),
    "C10": ("exploration", "3 (C10)", "deterministic simulation: record ops in concurrently running actors with replace/sum/concat/raising merges; reference left fold and depth-first merged view compared in completion callbacks and at quiescence",
            "Seeded search over record placements and interleavings; values read from ScopeMetrics obtained through completion callbacks.", SCOPE_NOTE),
    "C19": ("exploration", "3 (C19)", "deterministic simulation: scope trees with optional own logger / trace id and adversarial scope names, log ops in creating and spawned actors, uuid4 seam; captured LogRecords compared with the shadow scope stack",
            "Seeded search; the decisive dimension is program shape, the simulator contributes spawned-task placement, the uuid seam and replay.", SCOPE_NOTE),
})

CLAIMED.update({
    "C11": ("exploration", "5 (C11)", "deterministic simulation: generator specs consumed in the same scope / another scope / outside any scope / another task, fully, with early break (aclose or dropped reference with explicit gc event) or never started; generator-side and consumer-side shadow environments; rule ids in the violation signature",
            "Seeded search over generator specs, consumption placements and finalisation instants. 22 open known findings (one root cause: the stream body runs in the consumer's context) are listed by rule and consumption mode; any other rule/mode is reported as a violation.", SCOPE_NOTE),
})

CLAIMED.update({
    "C18": ("exploration", "4 (C18)", "deterministic simulation: loop.run_in_executor routed to baton-passed real threads (the scheduler decides when the worker runs and how long it stays parked relative to a heartbeat task); transparency / thread identity / context carried-not-leaked / traced metrics oracle",
            "Seeded search over wrapper kinds, signature shapes, outcomes, call-site nestings and worker hand-over schedules; metadata (__name__/__doc__/__wrapped__) of every helper decorator checked statically in each run.",
            "Real OS pre-emption inside the wrapped function is not modelled (exactly one of loop thread / worker runs at a time); isolation of context changes is only demanded of the executor wrappers."),
})

NOT_YET = {
}

NOT_APPLICABLE = {
    "C04": "pure value semantics of one object under a sequential history; no schedule, clock, I/O or fault influences the outcome, so deterministic simulation adds nothing over input generation (DESIGN 11)",
    "C05": "acceptance/conversion is a pure function of (annotation, value); no concurrency, time or fault surface (DESIGN 11)",
    "C20": "identity of MISSING under call/copy/deepcopy/pickle is a pure function of its input; no schedule, clock or fault (DESIGN 11)",
}

ALL = [f"C{i:02d}" for i in range(1, 21)]


def main():
    checks = []
    for pid in ALL:
        if pid not in CLAIMED:
            continue
        level, ref, technique, text, note = CLAIMED[pid]
        checks.append({
            "property_id": pid,
            "quick_cmd": f"/verif/bin/check {pid} --tier quick",
            "thorough_cmd": f"/verif/bin/check {pid} --tier thorough",
            "evidence_file": f"/verif/evidence/{pid}.json",
            "replay_cmd_template": f"/verif/bin/check {pid} --replay {{path}}",
            "engine": "simloop",
            "level_claimed": {"category": level, "text": text, "design_ref": ref},
            "level_note": note,
            "technique": technique,
        })
    na = []
    for pid in ALL:
        if pid in CLAIMED:
            continue
        if pid in NOT_APPLICABLE:
            na.append({"property_id": pid, "reason": NOT_APPLICABLE[pid]})
        else:
            na.append({"property_id": pid, "reason": NOT_YET.get(pid, "not claimed yet: the simulated check for this property is still being built (see DESIGN.md section 0 for the planned check)")})
    doc = {
        "version": 1,
        "setup_cmd": "/venv/bin/python -c \"import sys; sys.path.insert(0,'/repo/src'); import haiway, asyncio; print('haiway', haiway.__file__)\"",
        "hooks": {
            "guard": "HAIWAY_VERIF",
            "enable": "no hook exists in /repo: every seam (clock, sleep, uuid4, event loop, executor, task factory) is reachable from outside; the guard name is reserved and unused",
            "baseline_off_cmd": "cd /repo && /venv/bin/python -m pytest -ra -q -p no:cacheprovider --timeout=900 --continue-on-collection-errors",
            "source_commits": [],
            "add_only": True,
        },
        "engines": [{
            "name": "simloop",
            "path": "/verif/sim",
            "serves_properties": sorted(CLAIMED),
            "kind_free_text": "deterministic simulation with fault injection: SimLoop (asyncio.BaseEventLoop subclass, virtual clock, seeded placement of external events, timer ties, task-set order), choice-list Source with ddmin shrinking and replay files, reference-model oracles",
        }],
        "checks": checks,
        "not_applicable": na,
        "notes": "All checks import haiway from /repo/src at run time (HAIWAY_SRC overrides for mutant testing), so nothing is built. Exit 0 held / 1 VIOLATION / 2 harness failure. Every check also runs `<profile>-eager` profiles (SimLoop with an eager task factory) and ends with a `python -O` slice of itself (a tenth of the counts, child interpreter, VERIF_PYTHON_O=0 switches it off). See DESIGN.md.",
    }
    with open(os.path.join(VERIF, "MANIFEST.json"), "w") as f:
        json.dump(doc, f, indent=1)


if __name__ == "__main__":
    main()
