"""SimLoop: a virtual-time asyncio event loop whose every free choice is drawn from a Source.

What is explored (legal in every CPython asyncio loop):
  * the loop iteration in which each pending *external event* is noticed, and the order of
    several noticed together;
  * the order of timers due at the same instant; how late a timer fires (jitter knob);
  * the iteration order of sets of tasks (task hash derived from a per-run salt);
What is never permuted: the FIFO order of ``call_soon`` handles.
"""
from __future__ import annotations

import asyncio
import contextvars
import hashlib
import heapq
import json
from asyncio import events
from collections import Counter

from .source import Source, splitmix64

INJECT_RANGE = 256
GRID = 1.0 / 1024.0  # all simulated instants are multiples of 2**-10 s (exact in binary floating point)


class SimStop(BaseException):
    """Base of the exceptions the loop uses to leave run_forever()."""


class SimAbort(SimStop):
    pass


class SimDeadlock(SimStop):
    pass


class SimCap(SimStop):
    pass


class _Quiescent(SimStop):
    pass


class Violation:
    __slots__ = ("rule", "msg", "features")

    def __init__(self, rule: str, msg: str, features: dict):
        self.rule = rule
        self.msg = msg
        self.features = features

    def signature(self) -> str:
        feats = " ".join(f"{k}={self.features[k]}" for k in sorted(self.features))
        return f"{self.rule} {feats}".strip()

    def as_dict(self) -> dict:
        return {"rule": self.rule, "msg": self.msg, "features": self.features,
                "signature": self.signature()}


class External:
    __slots__ = ("label", "fn", "held", "eligible", "fired", "forced", "sim", "on_select")

    def __init__(self, sim, label, fn, held, eligible, on_select=None):
        self.on_select = on_select
        self.sim = sim
        self.label = label
        self.fn = fn
        self.held = held
        self.eligible = eligible
        self.fired = False
        self.forced = False

    def cancel(self) -> None:
        if not self.fired:
            self.fired = True
            try:
                self.sim.externals.remove(self)
            except ValueError:
                pass

    def release(self) -> None:
        """Turn a held gate into a plain pending event."""
        self.held = False


class SimTimer(events.TimerHandle):
    __slots__ = ("_seq",)


class SimTask(asyncio.Task):
    """asyncio.Task with a seed-derived hash (so set iteration order is explored, not accidental)
    and a log of cancel()/uncancel() calls (ground truth for 'has been asked to cancel')."""

    def __init__(self, coro, *, loop, context=None, name=None, eager_start=False):
        sim = loop.sim
        sim.task_counter += 1
        self.sim_id = sim.task_counter
        self._sim_hash = splitmix64((sim.hash_salt << 32) ^ sim.task_counter) & 0x3FFFFFFFFFFFFFFF
        self.cancel_log = []
        self.sim_sim = sim
        super().__init__(coro, loop=loop, context=context, name=name, eager_start=eager_start)

    def __hash__(self):
        return self._sim_hash

    def __eq__(self, other):
        return self is other

    def cancel(self, msg=None):
        sim = self.sim_sim
        r = super().cancel(msg)
        cur = None
        try:
            cur = asyncio.current_task(sim.loop) if sim.loop.is_running() else None
        except RuntimeError:
            cur = None
        self.cancel_log.append(("cancel", sim.seq, r, getattr(cur, "sim_id", None)))
        return r

    def uncancel(self):
        r = super().uncancel()
        self.cancel_log.append(("uncancel", self.sim_sim.seq, r, None))
        return r


def _task_factory(loop, coro, context=None):
    # swarm knob `sim.eager`: the loop is configured with an eager task factory (Python 3.12): a new task runs
    # synchronously up to its first suspension inside create_task()
    eager = bool(getattr(loop.sim, "eager", False)) and loop.is_running()
    return SimTask(coro, loop=loop, context=context, eager_start=eager)


class SimLoop(asyncio.BaseEventLoop):
    def __init__(self, sim):
        super().__init__()
        self.sim = sim
        self._now = 0.0
        self._clock_resolution = 0.0
        self._timers = []  # heap of (when, seq, SimTimer)
        self._timer_seq = 0
        self.set_task_factory(_task_factory)
        self.set_exception_handler(sim._on_loop_exception)

    # -- clock / plumbing -------------------------------------------------
    def time(self):
        return self._now

    def _write_to_self(self):
        pass

    def _process_events(self, event_list):
        pass

    def _timer_handle_cancelled(self, handle):
        pass

    def call_at(self, when, callback, *args, context=None):
        if when is None:
            raise TypeError("when cannot be None")
        self._check_closed()
        timer = SimTimer(when, callback, args, self, context)
        self._timer_seq += 1
        timer._seq = self._timer_seq
        heapq.heappush(self._timers, (when, self._timer_seq, timer))
        timer._scheduled = True
        return timer

    def run_in_executor(self, executor, func, *args):
        self._check_closed()
        handler = self.sim.executor_handler
        if handler is None:
            raise RuntimeError("run_in_executor used without a simulated executor")
        return handler(executor, func, *args)

    def close(self):
        self._timers.clear()
        super().close()

    # -- the scheduler ----------------------------------------------------
    def _next_timer_when(self):
        timers = self._timers
        while timers and timers[0][2]._cancelled:
            heapq.heappop(timers)[2]._scheduled = False
        return timers[0][0] if timers else None

    def _run_once(self):
        sim = self.sim
        if sim.abort:
            raise SimAbort()
        sim.boundary += 1
        if sim.boundary > sim.max_boundaries:
            raise SimCap()
        ready = self._ready
        source = sim.source

        inj = sim.injections.pop(sim.boundary, None) if sim.injections else None
        if inj is not None:
            for label, fn in inj:
                sim.event("inject", label)
                self.call_soon(fn)

        nxt = self._next_timer_when()
        due = nxt is not None and nxt <= self._now
        if ready or due:
            if sim.externals:
                elig = sim._eligible()
                if elig:
                    k = source.weighted(sim.fire_weights, "busy-fire")
                    self._fire_some(elig, k)
        else:
            elig = sim._eligible() if sim.externals else None
            if elig and nxt is not None:
                c = source.weighted(sim.idle_weights, "idle")
                if c == 0:
                    self._fire_some(elig, 1 + source.weighted((6, 2, 1, 1), "idle-extra"))
                elif c == 1:
                    self._jump(nxt)
                else:
                    # the external completion is noticed part-way towards the next timer
                    span = nxt - self._now
                    steps = int(span / GRID)
                    if steps > 1:
                        self._now += GRID * (1 + source.draw(steps - 1, "partway"))
                    self._fire_some(elig, 1)
            elif elig:
                self._fire_some(elig, 1 + source.weighted((6, 2, 1, 1), "idle-extra"))
            elif nxt is not None:
                self._jump(nxt)
            else:
                held = [e for e in sim.externals if e.held and (e.eligible is None or e.eligible())]
                if held:
                    e = held[source.draw(len(held), "force")]
                    e.forced = True
                    sim.stats["gate_forced"] += 1
                    sim._fire(e)
                elif sim.main is not None and not sim.main.done():
                    raise SimDeadlock()
                else:
                    raise _Quiescent()

        # due timers -> ready, in (when, creation) order, ties permuted by the source
        timers = self._timers
        now = self._now
        if timers and timers[0][0] <= now:
            group = []
            group_when = None
            while timers and timers[0][0] <= now:
                when, _seq, h = heapq.heappop(timers)
                h._scheduled = False
                if h._cancelled:
                    continue
                if group and when != group_when:
                    self._flush_ties(group)
                    group = []
                group_when = when
                group.append(h)
            if group:
                self._flush_ties(group)

        ntodo = len(ready)
        for _ in range(ntodo):
            handle = ready.popleft()
            if handle._cancelled:
                continue
            handle._run()
            if sim.abort:
                raise SimAbort()
        handle = None

    def _flush_ties(self, group):
        n = len(group)
        if n > 1:
            sim = self.sim
            sim.stats["timer_ties"] += 1
            source = sim.source
            for i in range(n - 1):
                j = i + source.draw(n - i, "tie")
                if j != i:
                    group[i], group[j] = group[j], group[i]
        self._ready.extend(group)

    def _jump(self, when):
        sim = self.sim
        late = 0.0
        if sim.jitter_steps:
            late = GRID * sim.source.draw(sim.jitter_steps + 1, "late")
            if late:
                sim.stats["timer_late"] += 1
        self._now = max(self._now, when + late)

    def _fire_some(self, elig, k):
        sim = self.sim
        source = sim.source
        while k > 0 and elig:
            e = elig[source.draw(len(elig), "which")]
            sim._fire(e)
            k -= 1
            if k:
                elig = sim._eligible()


class Sim:
    """One simulated run: source, loop, event log, externals, violation slot."""

    FIRE_TABLES = ((10, 2, 1, 0), (5, 3, 1, 1), (2, 3, 3, 2), (1, 0, 0, 0))
    IDLE_TABLES = ((2, 2, 1), (3, 1, 0), (1, 3, 1))

    def __init__(self, source: Source, *, max_boundaries: int = 20000, jitter_steps: int = 0,
                 keep_log: bool = True):
        self.source = source
        self.seq = 0
        self.boundary = 0
        self.max_boundaries = max_boundaries
        self.abort = False
        self.violation: Violation | None = None
        self.harness_errors: list[str] = []
        self.externals: list[External] = []
        self.injections: dict[int, list] = {}
        self.stats: Counter = Counter()
        self.log: list = []
        self.keep_log = keep_log
        self._hash = hashlib.sha256()
        self.loop_errors: list = []
        self.unraisable: list = []
        self.task_counter = 0
        self.main = None
        self.executor_handler = None
        self.program = None
        self.nontrivial = False
        self.finished = False
        self.outcome = None
        self.known = {}
        self.tick = 0
        from collections import Counter as _C
        self.known_seen = _C()
        # choice 0 of every run: where a swept fault is injected (0 = nowhere); workloads that do
        # not sweep ignore it.  Keeping it at a fixed position lets a sweep patch it (DESIGN 2.5).
        self.inject_choice = source.draw(INJECT_RANGE, "inject-at")
        self.extra = {}
        # per-run knobs (swarm): drawn first so that they sit at the front of the choice list
        self.hash_salt = source.draw(8, "hash-salt")
        self.fire_weights = self.FIRE_TABLES[source.draw(len(self.FIRE_TABLES), "fire-table")]
        self.idle_weights = self.IDLE_TABLES[source.draw(len(self.IDLE_TABLES), "idle-table")]
        self.jitter_steps = jitter_steps
        self.loop = SimLoop(self)

    # -- time -------------------------------------------------------------
    @property
    def now(self) -> float:
        return self.loop._now

    # -- event log --------------------------------------------------------
    def event(self, kind: str, *payload) -> int:
        self.seq += 1
        rec = (self.seq, self.loop._now, kind) + payload
        self._hash.update(repr(rec).encode())
        if self.keep_log:
            self.log.append(rec)
        return self.seq

    def digest(self) -> str:
        return self._hash.hexdigest()

    # -- violations -------------------------------------------------------
    def fail(self, rule: str, msg: str, **features):
        """Record the first violation and stop the run (lock-step oracle)."""
        if self.violation is None:
            self.violation = Violation(rule, msg, features)
            self.event("VIOLATION", rule)
        self.abort = True
        raise SimAbort()

    def report(self, rule: str, msg: str, **features) -> bool:
        """Like fail(), but a violation whose signature is an *open known finding* is only counted and the run
        continues (so that one listed finding cannot mask a different violation).  Returns True if counted."""
        v = Violation(rule, msg, features)
        sig = v.signature()
        if sig in self.known:
            self.known_seen[sig] += 1
            return True
        self.fail(rule, msg, **features)
        return False

    def report_post(self, rule: str, msg: str, **features) -> bool:
        v = Violation(rule, msg, features)
        sig = v.signature()
        if sig in self.known:
            self.known_seen[sig] += 1
            return True
        self.fail_post(rule, msg, **features)
        return False

    def fail_post(self, rule: str, msg: str, **features) -> None:
        """History oracle: record the violation without raising."""
        if self.violation is None:
            self.violation = Violation(rule, msg, features)
            self.event("VIOLATION", rule)
        self.abort = True

    def harness_error(self, what: str) -> None:
        self.harness_errors.append(what)
        self.abort = True

    def _on_loop_exception(self, loop, context):
        if self.finished:
            return
        exc = context.get("exception")
        self.loop_errors.append((context.get("message", ""), type(exc).__name__ if exc else None,
                                 str(exc) if exc else None))

    # -- externals --------------------------------------------------------
    def external(self, label: str, fn, *, held: bool = False, eligible=None, on_select=None) -> External:
        e = External(self, label, fn, held, eligible, on_select)
        self.externals.append(e)
        return e

    def _eligible(self):
        return [e for e in self.externals if not e.held and (e.eligible is None or e.eligible())]

    def _fire(self, e: External) -> None:
        e.fired = True
        self.externals.remove(e)
        if e.on_select is not None:
            e.on_select()
        if self.tick:
            self.loop._now += GRID  # external completions take (virtual) time
        self.event("x", e.label)
        self.loop.call_soon(e.fn)

    async def pause(self, tag: str = "p"):
        fut = self.loop.create_future()
        ext = self.external(tag, lambda: fut.done() or fut.set_result(None))
        try:
            await fut
        finally:
            ext.cancel()

    async def gate(self, tag: str, *, held: bool = True) -> bool:
        """Wait for an external completion; a *held* gate is resolved only when nothing else can make
        progress ('forced').  Returns whether it was forced."""
        fut = self.loop.create_future()
        ext = self.external(tag, lambda: fut.done() or fut.set_result(None), held=held)
        try:
            await fut
        finally:
            ext.cancel()
        return ext.forced

    def at(self, when: float, fn, *args):
        return self.loop.call_at(when, fn, *args)

    def inject(self, boundary: int, label: str, fn) -> None:
        self.injections.setdefault(boundary, []).append((label, fn))

    # -- running ----------------------------------------------------------
    def run(self, main_factory, *, name: str = "main") -> str:
        loop = self.loop
        asyncio.set_event_loop(loop)
        context = contextvars.Context()
        outcome = "ok"
        try:
            self.main = loop.create_task(main_factory(), context=context, name=name)
            try:
                loop.run_forever()
            except _Quiescent:
                outcome = "ok"
            except SimAbort:
                outcome = "abort"
            except SimDeadlock:
                outcome = "deadlock"
            except SimCap:
                outcome = "cap"
        finally:
            self.outcome = outcome
        return outcome

    def next_loop(self) -> None:
        """Continue the execution on a fresh event loop while the virtual clock keeps running - what a program does that
        calls ``asyncio.run`` twice and re-uses module-level decorated functions."""
        old = self.loop
        now = old._now
        try:
            old.close()
        except Exception:  # noqa: BLE001
            pass
        self.loop = SimLoop(self)
        self.loop._now = now
        self.externals.clear()
        self.injections.clear()
        self.main = None
        self.stats["second_event_loop"] += 1
        self.event("next-loop")

    def close(self) -> None:
        self.finished = True
        for job in getattr(self, "executor_jobs", ()):
            job.abandon()
        self.externals.clear()
        self.injections.clear()
        try:
            self.loop.close()
        finally:
            asyncio.set_event_loop(None)

    def pending_tasks(self):
        return [t for t in asyncio.all_tasks(self.loop) if not t.done()]

    def log_json(self) -> str:
        return json.dumps(self.log, default=repr)
