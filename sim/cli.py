from __future__ import annotations

import argparse
import os
import sys


def main(argv=None) -> int:
    ap = argparse.ArgumentParser(prog="check")
    ap.add_argument("property")
    ap.add_argument("--tier", default=os.environ.get("VERIF_TIER", "quick"), choices=["quick", "thorough"])
    ap.add_argument("--replay")
    ap.add_argument("--digests", type=int)
    ap.add_argument("--workers", type=int)
    ap.add_argument("--reverse", action="store_true")
    ap.add_argument("--seed", type=int)
    args = ap.parse_args(argv)
    from . import runner
    seed = args.seed if args.seed is not None else int(os.environ.get("VERIF_SEED", runner.DEFAULT_SEED))
    if args.replay:
        return runner.replay(args.replay)
    if args.digests is not None:
        return runner.digests_cmd(args.property, args.digests, seed, args.reverse)
    return runner.check(args.property, args.tier, seed, args.workers)
