"""Base class of a property workload."""
from __future__ import annotations

GROUND_RULES = [
    "CPython 3.12.1 asyncio (Task, Future, TaskGroup, gather, shield, Lock, sleep) is the real code and is trusted",
    "only schedules a FIFO-ready-queue asyncio loop can produce are explored (DESIGN 2.4)",
    "oracles use public API and observable effects only; harness exceptions are HARNESS, never VIOLATION",
    "a clean batch is evidence, not proof: seeded sampling of schedules and fault sequences",
]


class Prop:
    id = "C00"
    level = "exploration"
    tiers = {"quick": [("default", 1000)], "thorough": [("default", 10000)]}
    wall_caps = {"quick": 150, "thorough": 2700}
    rule_text = ""
    components = {"real": ["haiway (unmodified, imported from /repo/src)", "asyncio.Task/Future"],
                  "stub": ["event loop selector/clock (SimLoop)"]}
    assumptions = GROUND_RULES

    def sim_options(self, profile: str) -> dict:
        return {}

    def execute(self, sim, profile: str) -> None:  # pragma: no cover
        raise NotImplementedError


def with_eager(tiers: dict, extra: list) -> dict:
    """Add `<profile>-eager` entries (same workload, loop configured with asyncio's eager task factory; see runner._execute):
    `extra` lists (profile, quick count); the thorough tier gets 20x."""
    out = {k: list(v) for k, v in tiers.items()}
    for name, n in extra:
        out["quick"].append((f"{name}-eager", n))
        out["thorough"].append((f"{name}-eager", n * 20))
    return out


def sweep_expand(prop, seed, profile, run, sample, max_k=255):
    """Fault-position sweep: run the fault-free twin (choice 0 forced to 0), then re-run it once per
    loop iteration k with the fault injected at iteration k (choices of the twin replayed as the
    prefix; after the runs diverge the remaining choices continue from a PRNG derived from (seed, k))."""
    from .source import Source, derive_seed
    twin = run(Source(seed, prefix=[0]), sample)
    if twin["violation"] or twin["harness"]:
        return twin
    n = min(twin["boundaries"], max_k)
    base = twin["trace"]
    for k in range(1, n + 1):
        run(Source(derive_seed(seed, k), prefix=[k] + base[1:]))
    return twin
