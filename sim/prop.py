"""Base class of a property workload."""
from __future__ import annotations

GROUND_RULES = [
    "CPython 3.12.1 asyncio (Task, Future, TaskGroup, gather, shield, Lock, sleep) is the real code and is trusted",
    "only schedules a FIFO-ready-queue asyncio loop can produce are explored (DESIGN 2.4)",
    "oracles use public API and observable effects only; harness exceptions are HARNESS, never VIOLATION",
    "a clean batch is evidence, not proof: seeded sampling of schedules and fault sequences",
]


class Prop:
    id = "C00"
    level = "exploration"
    tiers = {"quick": [("default", 1000)], "thorough": [("default", 10000)]}
    wall_caps = {"quick": 150, "thorough": 1500}
    rule_text = ""
    components = {"real": ["haiway (unmodified, imported from /repo/src)", "asyncio.Task/Future"],
                  "stub": ["event loop selector/clock (SimLoop)"]}
    assumptions = GROUND_RULES

    def sim_options(self, profile: str) -> dict:
        return {}

    def execute(self, sim, profile: str) -> None:  # pragma: no cover
        raise NotImplementedError
