"""Deterministic simulation core for the haiway checks (see /verif/DESIGN.md)."""
