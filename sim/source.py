"""Choice source: one integer decides everything.

Every decision of a simulated run is ``source.draw(n, label) -> int in [0, n)``.  The
source records the values drawn; a run is a pure function of that list and of the code.
``Source(prefix=values)`` replays a recorded list (values reduced modulo ``n``); when the
prefix is exhausted the source continues from its PRNG if it was given a seed, else it
answers ``0`` (``0`` is always the simplest alternative: stop, no fault, first candidate),
which is what makes delta-debugging on the list shrink the scenario.
"""
from __future__ import annotations

import random

MASK64 = (1 << 64) - 1


def splitmix64(x: int) -> int:
    x = (x + 0x9E3779B97F4A7C15) & MASK64
    z = x
    z = ((z ^ (z >> 30)) * 0xBF58476D1CE4E5B9) & MASK64
    z = ((z ^ (z >> 27)) * 0x94D049BB133111EB) & MASK64
    return z ^ (z >> 31)


def _str_hash(s: str) -> int:
    # stable across processes (no PYTHONHASHSEED dependence)
    h = 0xCBF29CE484222325
    for ch in s.encode():
        h = ((h ^ ch) * 0x100000001B3) & MASK64
    return h


def derive_seed(base: int, *parts) -> int:
    x = splitmix64(base & MASK64)
    for p in parts:
        v = _str_hash(p) if isinstance(p, str) else int(p) & MASK64
        x = splitmix64(x ^ v)
    return x


class Source:
    __slots__ = ("rng", "prefix", "pos", "trace", "labels", "seed", "record_labels")

    def __init__(self, seed: int | None = None, prefix=None, record_labels: bool = False):
        self.seed = seed
        self.rng = random.Random(seed) if seed is not None else None
        self.prefix = list(prefix) if prefix is not None else []
        self.pos = 0
        self.trace: list[int] = []
        self.record_labels = record_labels
        self.labels: list[str] = []

    def draw(self, n: int, label: str = "") -> int:
        if n <= 1:
            return 0
        if self.pos < len(self.prefix):
            v = self.prefix[self.pos] % n
        elif self.rng is not None:
            v = self.rng.randrange(n)
        else:
            v = 0
        self.pos += 1
        self.trace.append(v)
        if self.record_labels:
            self.labels.append(f"{label}/{n}")
        return v

    def weighted(self, weights, label: str = "") -> int:
        """Index drawn with the given integer weights; index 0 is reached by value 0."""
        total = 0
        for w in weights:
            total += w
        v = self.draw(total, label)
        acc = 0
        for i, w in enumerate(weights):
            acc += w
            if v < acc:
                return i
        return len(weights) - 1

    def chance(self, num: int, den: int, label: str = "") -> bool:
        """True with probability num/den; value 0 means False."""
        if num <= 0:
            return False
        return self.draw(den, label) >= den - num

    def geometric(self, limit: int, stop_one_in: int, label: str = "") -> int:
        """0..limit, each further unit taken with probability 1 - 1/stop_one_in."""
        k = 0
        while k < limit and self.draw(stop_one_in, label) != 0:
            k += 1
        return k

    def pick(self, seq, label: str = ""):
        return seq[self.draw(len(seq), label)]
