"""Batch runner: seeds -> simulated executions on forked workers; shrinking; replay; evidence."""
from __future__ import annotations

import faulthandler
import gc
import importlib
import json
import os
import subprocess
import sys
import time as _time
import traceback
import warnings
from collections import Counter
from concurrent.futures import ProcessPoolExecutor, as_completed
from multiprocessing import get_context

from .source import Source, derive_seed

VERIF = os.path.dirname(os.path.dirname(os.path.abspath(__file__)))
DEFAULT_SEED = 20261004
_real_monotonic = _time.monotonic  # bound before any seam is installed

PROP_MODULES = {
    "C01": "props.scopes", "C02": "props.scopes", "C03": "props.scopes", "C06": "props.scopes",
    "C07": "props.scopes", "C08": "props.scopes", "C09": "props.scopes", "C10": "props.scopes",
    "C19": "props.scopes", "C11": "props.streams", "C12": "props.cache", "C13": "props.cache_async",
    "C14": "props.retry", "C15": "props.throttle", "C16": "props.timeout", "C17": "props.queue",
    "C18": "props.wrappers",
}


def load_prop(pid: str):
    mod = importlib.import_module(PROP_MODULES[pid])
    return mod.PROPS[pid] if hasattr(mod, "PROPS") else mod


# ----------------------------------------------------------------------------------------------
# known findings
# ----------------------------------------------------------------------------------------------
def load_known(pid: str):
    path = os.path.join(VERIF, "known_findings.json")
    try:
        with open(path) as f:
            data = json.load(f)
    except FileNotFoundError:
        return {}
    out = {}
    for e in data.get("findings", []):
        if e.get("property") == pid and e.get("status") == "open":
            out[e["signature"]] = e["what"]
    return out


# ----------------------------------------------------------------------------------------------
# one execution
# ----------------------------------------------------------------------------------------------
_worker_ready = False
_runs_since_gc = 0


def _worker_init():
    global _worker_ready
    if _worker_ready:
        return
    from . import seams
    seams.install()
    gc.disable()
    warnings.simplefilter("ignore")
    import logging
    logging.getLogger("asyncio").setLevel(logging.CRITICAL)
    logging.lastResort = None
    logging.raiseExceptions = False

    def _unraisable(args):
        sim = seams.CURRENT
        if sim is not None and not sim.finished:
            sim.unraisable.append((type(args.exc_value).__name__, str(args.exc_value)))

    sys.unraisablehook = _unraisable
    gc.collect()
    gc.freeze()  # everything imported so far is permanent: explicit collections stay cheap
    _worker_ready = True


class ExecutionTimeout(BaseException):
    """One simulated execution exceeded its wall-clock budget: a hang in harness or library code (never exit 0)."""


_alarm = {"n": 0, "pid": None, "profile": None, "source": None}


def _on_alarm(signum, frame):
    _alarm["n"] += 1
    if _alarm["n"] >= 3:
        # The code under test swallowed the watchdog's exception twice and keeps running (e.g. a retry loop that catches
        # BaseException): this execution can neither be finished nor be abandoned from the inside.  It is reported as a
        # violation with the choices drawn so far, and the worker process ends itself - the check then exits non-zero.
        try:
            src = _alarm["source"]
            pid = _alarm["pid"]
            path = os.path.join(VERIF, "replays", f"{pid}-uninterruptible-{os.getpid()}.json")
            os.makedirs(os.path.dirname(path), exist_ok=True)
            doc = {"property": pid, "profile": _alarm["profile"], "seed": None, "choices": list(getattr(src, "trace", []) or []),
                   "violation": {"rule": "uninterruptible-hang", "signature": "uninterruptible-hang", "features": {},
                                 "msg": "one simulated execution ran for more than 50 s of wall-clock time and swallowed the "
                                        "watchdog's BaseException twice: code under test catches everything and loops"},
                   "digest": "", "replay_cmd": f"/verif/bin/check {pid} --replay {path}", "tree": tree_ident()}
            with open(path, "w") as f:
                json.dump(doc, f, indent=1, default=repr)
            os.write(1, (f"violation rule/signature: uninterruptible-hang (1 runs) :: {doc['violation']['msg']}\n"
                         f"VIOLATION property={pid} replay={path}\n").encode())
        finally:
            os._exit(1)
    raise ExecutionTimeout("a single simulated execution ran longer than 40 s of wall-clock time")


def execute(prop, profile: str, source: Source, *, keep_log: bool = False, known=None):
    """Run one simulated execution; returns a plain dict."""
    import signal
    import threading
    armed = threading.current_thread() is threading.main_thread()
    if armed:
        _alarm.update(n=0, pid=getattr(prop, "id", "?"), profile=profile, source=source)
        signal.signal(signal.SIGALRM, _on_alarm)
        signal.setitimer(signal.ITIMER_REAL, 40.0, 5.0)  # then every 5 s: an execution that swallows the first one is escalated
    try:
        return _execute(prop, profile, source, keep_log=keep_log, known=known)
    finally:
        if armed:
            signal.setitimer(signal.ITIMER_REAL, 0.0)


def _execute(prop, profile: str, source: Source, *, keep_log: bool = False, known=None):
    global _runs_since_gc
    from . import seams
    from .loop import Sim
    _worker_init()
    if getattr(prop, "gc_before", False):
        gc.collect()
    # profile suffix "-eager": same workload on a loop configured with an eager task factory (swarm knob, Python 3.12)
    eager = profile.endswith("-eager")
    profile = profile.removesuffix("-eager")
    sim = Sim(source, keep_log=keep_log, **prop.sim_options(profile))
    sim.eager = eager
    sim.known = known or {}
    sim.known_seen = Counter()
    seams.set_current(sim)
    err = None
    try:
        try:
            prop.execute(sim, profile)
        except BaseException as exc:  # noqa: BLE001 - harness failure, never a VIOLATION
            from .loop import SimStop
            if isinstance(exc, (KeyboardInterrupt, SystemExit)):
                raise
            if not (isinstance(exc, SimStop) and sim.violation is not None):
                err = "".join(traceback.format_exception(type(exc), exc, exc.__traceback__))[-3000:]
        if err is None and sim.harness_errors:
            err = "; ".join(sim.harness_errors)[:3000]
        if err is None and sim.violation is None and sim.outcome in ("deadlock", "cap"):
            err = f"run ended with {sim.outcome} at boundary {sim.boundary} and no oracle claimed it"
        if eager and isinstance(sim.program, dict):
            sim.program["loop_task_factory"] = "eager"
            sim.stats["eager_task_factory"] += 1
        if sim.program is not None:
            sim._hash.update(repr(sim.program).encode())
        res = {
            "violation": sim.violation.as_dict() if sim.violation else None,
            "harness": err,
            "digest": sim.digest(),
            "nontrivial": bool(sim.nontrivial),
            "stats": dict(sim.stats),
            "vtime": sim.now,
            "boundaries": sim.boundary,
            "trace": list(source.trace),
            "known_seen": dict(sim.known_seen),
            "outcome": sim.outcome,
            "extra": sim.extra,
        }
        if keep_log:
            res["log"] = sim.log
            res["program"] = sim.program
            res["labels"] = list(source.labels)
        elif sim.program is not None and getattr(sim, "want_program", False):
            res["program"] = sim.program
        return res
    finally:
        seams.set_current(None)
        try:
            sim.close()
        except Exception:  # noqa: BLE001
            pass
        _runs_since_gc += 1
        if _runs_since_gc >= 200:
            _runs_since_gc = 0
            sim.finished = True
            gc.collect()


# ----------------------------------------------------------------------------------------------
# worker: a chunk of seeds
# ----------------------------------------------------------------------------------------------
def _chunk(pid: str, profile: str, base_seed: int, start: int, count: int, want_samples: int,
           deadline: float):
    faulthandler.enable()
    prop = load_prop(pid)
    known = load_known(pid)
    agg = {
        "evaluations": 0, "seeds": 0, "digests": set(), "stats": Counter(), "vtime": 0.0,
        "boundaries": 0, "violations": {}, "harness": [], "known_seen": Counter(),
        "samples": [], "profile": profile, "truncated": 0, "first": start, "count": count,
        "determinism": [],
    }

    mode = {"recheck": False, "digs": []}

    def run(source: Source, sample: bool = False):
        if sample and not mode["recheck"]:
            source.record_labels = True
        res = execute(prop, profile, source, keep_log=sample and not mode["recheck"], known=known)
        mode["digs"].append(res["digest"])
        if mode["recheck"]:
            return res
        agg["evaluations"] += 1
        agg["vtime"] += res["vtime"]
        agg["boundaries"] += res["boundaries"]
        for k, v in res["stats"].items():
            agg["stats"][k] += v
        for k, v in res["known_seen"].items():
            agg["known_seen"][k] += v
        if res["nontrivial"]:
            agg["digests"].add(int(res["digest"][:16], 16))
        if res["harness"]:
            if len(agg["harness"]) < 3:
                agg["harness"].append({"seed": source.seed, "error": res["harness"],
                                       "trace": res["trace"]})
        elif res["violation"] and res["violation"]["signature"] in known:
            agg["known_seen"][res["violation"]["signature"]] += 1
        elif res["violation"]:
            sig = res["violation"]["signature"]
            slot = agg["violations"].get(sig)
            if slot is None:
                agg["violations"][sig] = {"count": 1, "trace": res["trace"], "seed": source.seed,
                                          "violation": res["violation"], "profile": profile}
            else:
                slot["count"] += 1
                if len(res["trace"]) < len(slot["trace"]):
                    slot["trace"] = res["trace"]
                    slot["seed"] = source.seed
        return res

    for i in range(start, start + count):
        if _real_monotonic() > deadline:
            agg["truncated"] += start + count - i
            break
        seed = derive_seed(base_seed, pid, profile, i)
        agg["seeds"] += 1
        sample = len(agg["samples"]) < want_samples
        mode["digs"] = []
        if hasattr(prop, "expand"):
            first = prop.expand(seed, profile, run, sample)
        else:
            first = run(Source(seed), sample)
        digs_first = mode["digs"]
        if sample and first is not None and first.get("program") is not None:
            agg["samples"].append({"seed": seed, "profile": profile, "program": first["program"],
                                   "choice_list": first["trace"][:80], "choice_labels": (first.get("labels") or [])[:80],
                                   "schedule_len": len(first["trace"]),
                                   "events": len(first.get("log") or []),
                                   "event_log_head": (first.get("log") or [])[:40],
                                   "outcome": first["outcome"], "digest": first["digest"][:16]})
        # in-process determinism re-check on the first seeds of every chunk
        if i < start + 2:
            mode["recheck"], mode["digs"] = True, []
            if hasattr(prop, "expand"):
                prop.expand(seed, profile, run, False)
            else:
                run(Source(seed), False)
            agg["determinism"].append((seed, "".join(d[:12] for d in digs_first), "".join(d[:12] for d in mode["digs"])))
            mode["recheck"] = False
    agg["digests"] = list(agg["digests"])
    agg["stats"] = dict(agg["stats"])
    agg["known_seen"] = dict(agg["known_seen"])
    return agg


# ----------------------------------------------------------------------------------------------
# shrinking
# ----------------------------------------------------------------------------------------------
def shrink(prop, profile: str, trace, signature: str, known, budget_runs: int = 600, budget_s: float = 30.0):
    """Delta-debugging on the choice list while the same rule is violated."""
    t0 = _real_monotonic()
    runs = [0]

    def still_fails(cand):
        if runs[0] >= budget_runs or _real_monotonic() - t0 > budget_s:
            return None
        runs[0] += 1
        res = execute(prop, profile, Source(prefix=cand), known=known)
        if res["violation"] and res["violation"]["signature"] == signature and not res["harness"]:
            return res["trace"]
        return None

    best = list(trace)
    got = still_fails(best)
    if got is None:
        return best, runs[0]
    best = got
    improved = True
    while improved:
        improved = False
        # delete blocks
        size = max(1, len(best) // 2)
        while size >= 1:
            i = 0
            while i < len(best):
                cand = best[:i] + best[i + size:]
                got = still_fails(cand)
                if got is not None and len(got) < len(best):
                    best = got
                    improved = True
                else:
                    i += size
            size //= 2
        # zero blocks / lower single values
        size = 8
        while size >= 1:
            i = 0
            while i < len(best):
                if any(best[i:i + size]):
                    cand = best[:i] + [0] * len(best[i:i + size]) + best[i + size:]
                    got = still_fails(cand)
                    if got is not None and (len(got), sum(got)) < (len(best), sum(best)):
                        best = got
                        improved = True
                i += size
            size //= 2
        for i in range(len(best)):
            if i < len(best) and best[i] > 1:
                cand = list(best)
                cand[i] = best[i] - 1
                got = still_fails(cand)
                if got is not None and (len(got), sum(got)) < (len(best), sum(best)):
                    best = got
                    improved = True
        if runs[0] >= budget_runs or _real_monotonic() - t0 > budget_s:
            break
    # strip trailing zeros (an exhausted prefix answers 0 anyway)
    while best and best[-1] == 0:
        best.pop()
    return best, runs[0]


def _shrink_job(pid: str, profile: str, trace, signature: str):
    prop = load_prop(pid)
    known = load_known(pid)
    best, nruns = shrink(prop, profile, trace, signature, known)
    final = execute(prop, profile, Source(prefix=best, record_labels=True), keep_log=True, known=known)
    return best, nruns, final


def _regression_job(pid: str):
    """Re-execute every committed replay of a (fixed) finding: it must not reproduce."""
    import glob
    prop = load_prop(pid)
    out = []
    for path in sorted(glob.glob(os.path.join(VERIF, "regressions", pid, "*.json"))):
        with open(path) as f:
            doc = json.load(f)
        res = execute(prop, doc["profile"], Source(prefix=doc["choices"]), known=load_known(pid))
        out.append({"file": path, "violation": res["violation"], "harness": res["harness"],
                    "profile": doc["profile"], "choices": doc["choices"], "trace": res["trace"]})
    return out


def tree_ident():
    try:
        head = subprocess.run(["git", "-C", "/repo", "rev-parse", "HEAD"], capture_output=True,
                              text=True, timeout=20).stdout.strip()
        dirty = bool(subprocess.run(["git", "-C", "/repo", "status", "--porcelain"],
                                    capture_output=True, text=True, timeout=20).stdout.strip())
    except Exception:  # noqa: BLE001
        head, dirty = "unknown", False
    return {"repo_head": head, "dirty": dirty, "haiway_src": os.environ.get("HAIWAY_SRC", "/repo/src")}


def write_replay(pid: str, profile: str, seed, best, final, shrink_runs: int) -> str:
    os.makedirs(os.path.join(VERIF, "replays"), exist_ok=True)
    d8 = final["digest"][:8]
    path = os.path.join(VERIF, "replays", f"{pid}-{seed}-{d8}{'-O' if sys.flags.optimize else ''}.json")
    doc = {
        "property": pid, "profile": profile, "seed": seed, "choices": best,
        "choice_labels": final.get("labels"),
        "violation": final["violation"], "digest": final["digest"],
        "program": final.get("program"), "event_log": final.get("log"),
        "shrink_runs": shrink_runs, "tree": tree_ident(),
        "replay_cmd": f"/verif/bin/check {pid} --replay {path}",
    }
    if sys.flags.optimize:
        doc["python_optimize"] = 1  # observed under `python -O` (assertions stripped): --replay re-executes itself that way
    with open(path, "w") as f:
        json.dump(doc, f, indent=1, default=repr)
    return path


def replay(path: str) -> int:
    with open(path) as f:
        doc = json.load(f)
    pid = doc["property"]
    if doc.get("python_optimize") and not sys.flags.optimize:
        # the violation was observed with assertions stripped: replay in the same interpreter mode
        os.execv(sys.executable, [sys.executable, "-O", os.path.join(VERIF, "bin", "check"), pid, "--replay", path])
    prop = load_prop(pid)
    res = execute(prop, doc["profile"], Source(prefix=doc["choices"], record_labels=True),
                  keep_log=True, known={})
    want = doc["violation"]
    print(f"replay property={pid} profile={doc['profile']} choices={len(doc['choices'])}")
    if res["harness"]:
        print("HARNESS:", res["harness"])
        return 2
    if res["violation"] is None:
        print("replay did not reproduce a violation (tree changed or fixed)")
        return 0
    print("violation:", json.dumps(res["violation"]))
    same = want is None or (res["violation"]["signature"] == want["signature"])
    print(f"digest {res['digest']} expected {doc.get('digest')} "
          f"{'MATCH' if res['digest'] == doc.get('digest') else 'DIFFERENT'}; signature "
          f"{'MATCH' if same else 'DIFFERENT'}")
    print(f"VIOLATION property={pid} replay={path}")
    return 1


# ----------------------------------------------------------------------------------------------
# the check
# ----------------------------------------------------------------------------------------------
def digests_cmd(pid: str, n: int, base_seed: int, reverse: bool = False) -> int:
    """Print the digests of the first n seeds of every quick profile (determinism self-test).  With reverse=True the
    seeds are executed in the opposite order (a digest that depends on what ran before in the process shows up)."""
    prop = load_prop(pid)
    known = load_known(pid)
    out = []
    for profile, _count in prop.tiers["quick"]:
        for i in (range(n - 1, -1, -1) if reverse else range(n)):
            seed = derive_seed(base_seed, pid, profile, i)
            if hasattr(prop, "expand"):
                ds = []
                prop.expand(seed, profile, lambda s, sample=False: (ds.append(r := execute(
                    prop, profile, s, known=known)) or r), False)
                out.append((profile, i, [d["digest"][:16] for d in ds]))
            else:
                out.append((profile, i, [execute(prop, profile, Source(seed), known=known)["digest"][:16]]))
    out.sort(key=lambda r: (r[0], r[1]))
    print(json.dumps(out))
    return 0


def check(pid: str, tier: str, base_seed: int, workers: int | None = None) -> int:
    t0 = _real_monotonic()
    prop = load_prop(pid)
    known = load_known(pid)
    workers = workers or int(os.environ.get("VERIF_WORKERS", "0")) or min(16, os.cpu_count() or 1)
    print(f"VERIF_SEED={base_seed} property={pid} tier={tier} workers={workers} "
          f"haiway_src={os.environ.get('HAIWAY_SRC', '/repo/src')}", flush=True)
    wall_cap = float(os.environ.get("VERIF_WALL_CAP", prop.wall_caps.get(tier, 120 if tier == "quick" else 1500)))
    deadline = _real_monotonic() + wall_cap
    scale = float(os.environ.get("VERIF_SCALE", "1"))
    o_slice = bool(sys.flags.optimize)  # this process IS the `python -O` slice of a check (started by the check itself)
    if o_slice:
        scale *= 0.1
    jobs = []
    for profile, count in prop.tiers[tier]:
        count = max(1, int(count * scale))
        per = max(1, min(2000, count // (workers * 6) or 1))
        start = 0
        first = True
        while start < count:
            n = min(per, count - start)
            jobs.append((pid, profile, base_seed, start, n, 2 if first else 0, deadline))
            first = False
            start += n

    total = {
        "evaluations": 0, "seeds": 0, "digests": set(), "stats": Counter(), "vtime": 0.0,
        "boundaries": 0, "violations": {}, "harness": [], "known_seen": Counter(), "samples": [],
        "truncated": 0, "per_profile": Counter(), "determinism": [],
    }
    ctx = get_context("fork")
    pool_failed = None
    with ProcessPoolExecutor(max_workers=workers, mp_context=ctx) as pool:
        futs = [pool.submit(_chunk, *j) for j in jobs]
        try:
            for fut in as_completed(futs, timeout=wall_cap + 120):
                agg = fut.result()
                total["evaluations"] += agg["evaluations"]
                total["seeds"] += agg["seeds"]
                total["digests"].update(agg["digests"])
                total["stats"].update(agg["stats"])
                total["known_seen"].update(agg["known_seen"])
                total["vtime"] += agg["vtime"]
                total["boundaries"] += agg["boundaries"]
                total["truncated"] += agg["truncated"]
                total["per_profile"][agg["profile"]] += agg["evaluations"]
                total["determinism"].extend(agg["determinism"])
                total["harness"].extend(agg["harness"])
                total["samples"].extend(agg["samples"])
                for sig, slot in agg["violations"].items():
                    cur = total["violations"].get(sig)
                    if cur is None:
                        total["violations"][sig] = slot
                    else:
                        cur["count"] += slot["count"]
                        if len(slot["trace"]) < len(cur["trace"]):
                            cur.update(trace=slot["trace"], seed=slot["seed"], profile=slot["profile"])
        except Exception as exc:  # noqa: BLE001 - dead worker, timeout
            pool_failed = f"{type(exc).__name__}: {exc}"
            for f in futs:
                f.cancel()

        # ---- regressions: committed replays of fixed findings must stay silent -------------------
        regress = []
        if not pool_failed and not o_slice:
            try:
                regress = pool.submit(_regression_job, pid).result(timeout=120)
            except Exception as exc:  # noqa: BLE001
                total["harness"].append({"seed": None, "error": f"regression job failed: {exc!r}", "trace": []})
        for r in regress:
            if r["harness"]:
                total["harness"].append({"seed": None, "error": f"regression {r['file']}: {r['harness']}", "trace": r["choices"]})
            elif r["violation"] and r["violation"]["signature"] not in known:
                sig = r["violation"]["signature"]
                total["violations"].setdefault(sig, {"count": 1, "trace": r["trace"], "seed": 0,
                                                     "violation": r["violation"], "profile": r["profile"]})
        total["regressions"] = [{"file": os.path.relpath(r["file"], VERIF), "reproduced": bool(r["violation"])} for r in regress]

        # ---- determinism: same seeds in fresh interpreters with other PYTHONHASHSEEDs ----------
        det = {"in_process_pairs": len(total["determinism"]),
               "in_process_equal": all(a == b for _s, a, b in total["determinism"])}
        ndet = int(os.environ.get("VERIF_DET_SEEDS", "4" if tier == "quick" else "12"))
        outs = []
        for hs in ("0", "4242"):
            env = dict(os.environ, PYTHONHASHSEED=hs, VERIF_SEED=str(base_seed))
            p = subprocess.run([sys.executable, *(["-O"] if o_slice else []), os.path.join(VERIF, "bin", "check"), pid, "--digests", str(ndet)],
                               capture_output=True, text=True, env=env, timeout=600)
            outs.append(p.stdout.strip().splitlines()[-1] if p.stdout.strip() else f"ERR {p.stderr[-500:]}")
        det["fresh_interpreter_runs"] = 2
        det["fresh_seeds_each"] = ndet * len(prop.tiers["quick"])
        det["fresh_equal"] = outs[0] == outs[1] and not outs[0].startswith("ERR")
        if not det["fresh_equal"]:
            det["detail"] = [o[:400] for o in outs]

        # ---- violations: shrink, write replay, verify replay in a fresh process -----------------
        reported = []
        for sig, slot in sorted(total["violations"].items()):
            if pool_failed:
                break
            try:
                best, nruns, final = pool.submit(_shrink_job, pid, slot["profile"], slot["trace"], sig).result(timeout=180)
            except Exception as exc:  # noqa: BLE001
                total["harness"].append({"seed": slot["seed"], "error": f"shrink failed: {exc!r}", "trace": slot["trace"]})
                continue
            if final["violation"] is None:
                # the violation was observed in a real simulated execution but does not replay: the tree under test
                # is itself nondeterministic (e.g. depends on object addresses).  It is still reported - with the
                # unminimised choice list and a note that the replay is unstable - never downgraded to a harness error.
                final = dict(final, violation=dict(slot["violation"], replay_unstable=True))
                best, nruns = slot["trace"], 0
                total["unstable_replays"] = total.get("unstable_replays", 0) + 1
            if any(r["signature"] == final["violation"]["signature"] for r in reported):
                continue  # same minimised violation as one already reported
            path = write_replay(pid, slot["profile"], slot["seed"], best, final, nruns)
            reported.append({"signature": final["violation"]["signature"], "first_signature": sig,
                             "count": slot["count"], "replay": path,
                             "msg": final["violation"]["msg"], "choices": len(best)})

    if pool_failed:
        # a worker that ended itself because an execution could not be interrupted has left its report behind
        import glob
        started = _time.time() - (_real_monotonic() - t0)
        for path in sorted(glob.glob(os.path.join(VERIF, "replays", f"{pid}-uninterruptible-*.json"))):
            if os.path.getmtime(path) >= started - 1:
                with open(path) as f:
                    doc = json.load(f)
                reported.append({"signature": doc["violation"]["signature"], "first_signature": doc["violation"]["signature"],
                                 "count": 1, "replay": path, "msg": doc["violation"]["msg"], "choices": len(doc["choices"])})
    wall = _real_monotonic() - t0
    # ---- report ----------------------------------------------------------------------------------
    for sig, what in sorted(known.items()):
        print(f"KNOWN-FINDING: property={pid} {what} [signature: {sig}; seen {total['known_seen'].get(sig, 0)}x this run]")
    harness_fail = bool(total["harness"]) or pool_failed or not det["in_process_equal"] or not det["fresh_equal"]
    if total.get("unstable_replays"):
        print(f"NOTE: {total['unstable_replays']} violation(s) were observed but do not replay exactly: the tree under test "
              f"behaves nondeterministically (object addresses, hash order); replay files hold the observed choice lists")
    for n, h in enumerate(total["harness"][:3]):
        print(f"HARNESS: seed={h['seed']} {h['error'][-1500:] if n == 0 else h['error'][-300:]}", flush=True)
    if pool_failed:
        print(f"HARNESS: worker pool failed: {pool_failed}")
    if not det["in_process_equal"] or not det["fresh_equal"]:
        print(f"HARNESS: determinism self-test failed: {json.dumps(det)[:800]}")
    for r in reported:
        print(f"violation rule/signature: {r['signature']} ({r['count']} runs) :: {r['msg']}")
        print(f"VIOLATION property={pid} replay={r['replay']}", flush=True)

    # ---- the same check once more under `python -O` (assertions of the library stripped), a tenth of the runs ---------
    o_summary = None
    if not o_slice and os.environ.get("VERIF_PYTHON_O", "1") != "0" and not pool_failed:
        o_summary = _python_o_slice(pid, tier, base_seed, workers, wall_cap)
        for line in o_summary.pop("lines"):
            print(line, flush=True)
        for r in o_summary.get("violations_reported", []):
            reported.append(dict(r, interpreter="python -O"))
        if o_summary.get("harness"):
            harness_fail = True
        wall = _real_monotonic() - t0

    evid = build_evidence(prop, pid, tier, base_seed, total, det, wall, reported, known)
    if o_summary is not None:
        evid["coverage"]["python_O_slice"] = {k: v for k, v in o_summary.items() if k != "violations_reported"}
    os.makedirs(os.path.join(VERIF, "evidence"), exist_ok=True)
    out_path = (os.path.join(VERIF, "replays", f"o-slice-{pid}.json") if o_slice
                else os.path.join(VERIF, "evidence", f"{pid}.json"))
    os.makedirs(os.path.dirname(out_path), exist_ok=True)
    with open(out_path, "w") as f:
        json.dump(evid, f, indent=1, default=repr)
    rate = total["evaluations"] / wall * 3600 if wall > 0 else 0
    print(f"property={pid} tier={tier} executions={total['evaluations']} seeds={total['seeds']} "
          f"distinct_nontrivial={len(total['digests'])} violations={len(reported)} "
          f"known_seen={sum(total['known_seen'].values())} wall={wall:.1f}s runs/h={rate:.0f} "
          f"sim_seconds={total['vtime']:.1f} truncated={total['truncated']}")
    if reported:
        return 1
    if harness_fail:
        return 2
    return 0


def _python_o_slice(pid, tier, base_seed, workers, wall_cap) -> dict:
    """Run this very check in a child interpreter started with -O (the library's `assert` statements - and debug-only
    behaviour - are compiled away) on a tenth of the run counts; returns a summary for the evidence file."""
    out_path = os.path.join(VERIF, "replays", f"o-slice-{pid}.json")
    try:
        os.remove(out_path)
    except OSError:
        pass
    env = dict(os.environ, VERIF_SEED=str(base_seed), VERIF_WORKERS=str(workers))
    lines, summary = [], {"interpreter": "python -O (sys.flags.optimize=1)", "run_count_factor": 0.1}
    try:
        p = subprocess.run([sys.executable, "-O", os.path.join(VERIF, "bin", "check"), pid, "--tier", tier],
                           capture_output=True, text=True, env=env, timeout=wall_cap + 300)
    except Exception as exc:  # noqa: BLE001
        return {"lines": [f"HARNESS: python -O slice failed to run: {exc!r}"], "harness": True, **summary}
    for line in p.stdout.splitlines():
        if line.startswith(("violation rule/signature", "VIOLATION ", "HARNESS", "NOTE:")):
            lines.append(("[python -O] " if not line.startswith("VIOLATION ") else "") + line)
    try:
        with open(out_path) as f:
            ev = json.load(f)
        cov = ev["coverage"]
        summary.update(executions=cov["evaluations"], distinct_nontrivial=cov["distinct_nontrivial"],
                       executions_per_profile=cov["executions_per_profile"], violations=ev["violations"],
                       violations_reported=cov["violations_reported"], exit_code=p.returncode, wall_s=ev["wall_s"])
    except Exception as exc:  # noqa: BLE001
        lines.append(f"HARNESS: python -O slice left no summary ({exc!r}); exit code {p.returncode}; {p.stderr[-300:]}")
        summary["harness"] = True
    if p.returncode == 2:
        summary["harness"] = True
    summary["lines"] = lines
    return summary


def build_evidence(prop, pid, tier, base_seed, total, det, wall, reported, known):
    stats = total["stats"]
    faults = {k[6:]: v for k, v in stats.items() if k.startswith("fault:")}
    probes = {k: v for k, v in stats.items() if not k.startswith("fault:")}
    samples = total["samples"][:3]
    return {
        "property_id": pid,
        "tier": tier,
        "seed": base_seed,
        "level": prop.level,
        "coverage": {
            "evaluations": total["evaluations"],
            "distinct_nontrivial": len(total["digests"]),
            "rule": prop.rule_text,
            "samples": samples,
            "seeds": total["seeds"],
            "executions_per_profile": dict(total["per_profile"]),
            "runs_per_hour": int(total["evaluations"] / wall * 3600) if wall > 0 else 0,
            "simulated_seconds": round(total["vtime"], 3),
            "loop_iterations": total["boundaries"],
            "faults_fired": faults,
            "probes": probes,
            "known_findings_seen": dict(total["known_seen"]),
            "known_findings_listed": sorted(known),
            "truncated_by_wall_cap": total["truncated"],
            "determinism": det,
            "components": prop.components,
            "violations_reported": reported,
            "regression_replays": total.get("regressions", []),
        },
        "assumptions": prop.assumptions,
        "wall_s": round(wall, 2),
        "violations": len(reported),
    }
