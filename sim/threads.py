"""Baton-passed executor threads: exactly one of {loop thread, one worker} runs at any time and the
scheduler (the choice source) decides every hand-over, so a run with threads is still a pure function
of its choice list."""
from __future__ import annotations

import threading
from concurrent.futures import Executor


class SimExecutor(Executor):
    """Stands for a thread pool; jobs are real threads stepped by the simulator."""

    def __init__(self, name: str):
        self.name = name
        self.jobs = 0
        self.shut = False  # fault: the pool was shut down before the call (submission is refused, as concurrent.futures does)

    def submit(self, fn, /, *args, **kwargs):  # pragma: no cover - only the loop's run_in_executor is used
        raise RuntimeError("SimExecutor is driven through loop.run_in_executor only")

    def shutdown(self, wait=True, *, cancel_futures=False):
        pass


_local = threading.local()


def current_job():
    return getattr(_local, "job", None)


class _Abandon(BaseException):
    pass


class Job:
    abandoned = False

    def __init__(self, sim, executor, fn, args):
        self.sim = sim
        self.executor = executor
        self.fn = fn
        self.args = args
        self.fut = sim.loop.create_future()
        self.go = threading.Semaphore(0)
        self.back = threading.Semaphore(0)
        self.state = "new"
        self.result = None
        self.exc = None
        self.parks = 0
        self.thread = threading.Thread(target=self._run, daemon=True)
        self.n = sim.stats["executor_jobs"] = sim.stats["executor_jobs"] + 1
        self._register("start")

    def _register(self, what):
        self.sim.external(f"worker{self.n}:{what}", self.step)

    def _run(self):
        _local.job = self
        self.go.acquire()
        try:
            self.result = self.fn(*self.args)
        except BaseException as exc:  # noqa: BLE001 - delivered to the awaiting future
            self.exc = exc
        self.state = "done"
        self.back.release()

    def step(self):
        """External event (loop thread): let the worker run until it parks or finishes."""
        if self.state == "new":
            self.state = "running"
            self.thread.start()
        else:
            self.state = "running"
        self.go.release()
        if not self.back.acquire(timeout=30):
            self.sim.harness_error("worker thread did not hand the baton back within 30 s")
            return
        if self.state == "done":
            self.thread.join(timeout=5)
            if not self.fut.done():
                if self.exc is not None:
                    self.fut.set_exception(self.exc)
                else:
                    self.fut.set_result(self.result)
        else:
            self._register("resume")

    def park(self):
        """Called on the worker thread: hand the baton back to the loop thread and wait to be resumed."""
        self.parks += 1
        self.state = "parked"
        self.back.release()
        self.go.acquire()
        if self.abandoned:
            raise _Abandon()

    def abandon(self):
        """The run is over (aborted): let a parked worker unwind so that no thread is left behind."""
        if self.state == "parked":
            self.abandoned = True
            self.go.release()
            self.thread.join(timeout=5)


def install(sim, default_executor: SimExecutor):
    used = []

    def handler(executor, func, *args):
        ex = executor if executor is not None else default_executor
        if not isinstance(ex, SimExecutor):
            raise RuntimeError(f"run_in_executor with a foreign executor {ex!r}")
        if ex.shut:
            sim.stats["fault:executor_shut_down"] += 1
            raise RuntimeError("cannot schedule new futures after shutdown")
        ex.jobs += 1
        job = Job(sim, ex, func, args)
        used.append(job)
        return job.fut

    sim.executor_handler = handler
    sim.executor_jobs = used
    return used


def thread_yield():
    job = current_job()
    if job is None:
        return False
    job.park()
    return True
