"""Seams: clock, sleep and uuid of the library under test are routed to the current Sim.

No hook in /repo is needed: ``time.monotonic``, ``time.sleep`` and ``uuid.uuid4`` are replaced
globally and every ``haiway.*`` module global that *is* the original function object is rebound,
which is robust to ``from time import monotonic`` vs ``import time`` spellings.
"""
from __future__ import annotations

import os
import sys
import time
import uuid

_REAL_MONOTONIC = time.monotonic
_REAL_SLEEP = time.sleep
_REAL_UUID4 = uuid.uuid4

CURRENT = None  # the Sim of the run in progress (one per process at a time)


def set_current(sim) -> None:
    global CURRENT
    CURRENT = sim


def sim_monotonic() -> float:
    sim = CURRENT
    if sim is None:
        return 0.0
    # the library's clock need not share its epoch with the loop's clock: a per-run offset (swarm knob, default 0)
    return sim.loop._now + getattr(sim, "mono_epoch", 0.0)


def sim_sleep(seconds) -> None:
    sim = CURRENT
    if sim is None:
        return
    sim.stats["sleep_sync"] += 1
    hook = getattr(sim, "on_sleep_sync", None)
    if hook is not None:
        hook(seconds)
    else:
        sim.loop._now += float(seconds)


class _FakeUUID:
    __slots__ = ("hex", "int")

    def __init__(self, n: int):
        self.int = n
        self.hex = f"{n:032x}"

    def __str__(self) -> str:
        h = self.hex
        return f"{h[:8]}-{h[8:12]}-{h[12:16]}-{h[16:20]}-{h[20:]}"


_uuid_fallback = [0]


def sim_uuid4():
    sim = CURRENT
    if sim is None:
        _uuid_fallback[0] += 1
        return uuid.UUID(int=(0xF << 124) | _uuid_fallback[0], version=4)
    sim.uuid_counter = getattr(sim, "uuid_counter", 0) + 1
    # deterministic per run, distinct within a run, looks random enough for containment checks
    from .source import splitmix64
    hi = splitmix64(sim.uuid_counter * 2 + 1)
    lo = splitmix64(sim.uuid_counter * 2 + 2)
    return uuid.UUID(int=((hi << 64) | lo) & ((1 << 128) - 1), version=4)  # a real UUID object, seeded


def haiway_src() -> str:
    return os.environ.get("HAIWAY_SRC", "/repo/src")


_installed = False


def install() -> None:
    """Import haiway from HAIWAY_SRC (default /repo/src) and rebind the seams."""
    global _installed
    if _installed:
        return
    src = haiway_src()
    if sys.path[0] != src:
        sys.path.insert(0, src)
    if os.environ.get("HAIWAY_VERIF_DEBUG_PATH"):
        print("haiway from", src, file=sys.stderr)
    import haiway  # noqa: F401

    got = os.path.realpath(os.path.dirname(os.path.dirname(haiway.__file__)))
    if got != os.path.realpath(src):
        raise RuntimeError(f"haiway imported from {got}, expected {src}")

    time.monotonic = sim_monotonic
    time.sleep = sim_sleep
    uuid.uuid4 = sim_uuid4
    table = {id(_REAL_MONOTONIC): sim_monotonic, id(_REAL_SLEEP): sim_sleep, id(_REAL_UUID4): sim_uuid4}
    for name, mod in list(sys.modules.items()):
        if mod is None or not (name == "haiway" or name.startswith("haiway.")):
            continue
        for attr, val in list(vars(mod).items()):
            rep = table.get(id(val))
            if rep is not None and val in (_REAL_MONOTONIC, _REAL_SLEEP, _REAL_UUID4):
                setattr(mod, attr, rep)
    _installed = True


def real_monotonic() -> float:
    return _REAL_MONOTONIC()
